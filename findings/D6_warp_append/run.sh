#!/bin/bash
# usage: run.sh [repo]  -> exit 0 if the chunk survives (fixed), 1 if it is modified (defect present)
export GOFLAGS=-mod=mod GOPROXY=off GOSUMDB=off GOTOOLCHAIN=local
repo="${1:-/repo}"; here="$(cd "$(dirname "$0")" && pwd)"
tmp=$(mktemp -d); trap 'rm -rf "$tmp"' EXIT
# utils_other.go with isWarpTerminal removed + our replacement
grep -v '^$' /dev/null
python3 - "$repo/trzsz/utils_other.go" "$tmp/utils_other.go" <<'PY'
import re,sys
s=open(sys.argv[1]).read()
s=re.sub(r'func isWarpTerminal\(\) bool \{\n\treturn false\n\}\n','',s)
open(sys.argv[2],'w').write(s)
PY
cat > "$tmp/ov.json" <<JSON
{"Replace": {"$repo/trzsz/utils_other.go": "$tmp/utils_other.go",
 "$repo/trzsz/zz_d6_warp.go": "$here/utils_other_warp.go",
 "$repo/trzsz/zz_d6_demo_test.go": "$here/demo_test.go"}}
JSON
cd "$repo" && go test -overlay "$tmp/ov.json" -vet=off -count=1 -timeout 120s -run TestD6WarpAppendKeepsCallerInput ./trzsz
