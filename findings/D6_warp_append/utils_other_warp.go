//go:build !darwin && !windows

package trzsz

// overlay for the D6 demonstration: pretend to run inside Warp (utils_darwin.go detects it by
// walking the parent processes)
func isWarpTerminal() bool {
	return true
}
