package trzsz

import (
	"bytes"
	"testing"
)

// D6 (C05): on macOS inside Warp, detectDragFilesOnMacOS normalised "\x10/path<ws>" by
// bytes.TrimSpace + append(buf, ' '): the append wrote the blank into the CALLER's chunk, over the
// trimmed whitespace byte.  sendInput then forwarded the damaged chunk ("\x10/abc\r" -> "\x10/abc ").
// isWarpTerminal() is overlaid to return true (what the darwin build returns inside Warp); everything
// else is the real code.
func TestD6WarpAppendKeepsCallerInput(t *testing.T) {
	backing := make([]byte, 64)
	n := copy(backing, "\x10/no/such/file\r")
	chunk := backing[:n]
	orig := append([]byte(nil), chunk...)
	files, _, _ := detectDragFilesOnMacOS(chunk)
	if files != nil {
		t.Fatalf("unexpected drag files %v", files)
	}
	if !bytes.Equal(chunk, orig) {
		t.Fatalf("input chunk was modified: %q -> %q", orig, chunk)
	}
}
