#!/bin/bash
# usage: run.sh [repo] -> exit 0 if the byte after the terminator survives (fixed), 1 if it is skipped (defect present)
export GOFLAGS=-mod=mod GOPROXY=off GOSUMDB=off GOTOOLCHAIN=local
repo="${1:-/repo}"; here="$(cd "$(dirname "$0")" && pwd)"
tmp=$(mktemp -d); trap 'rm -rf "$tmp"' EXIT
echo "{\"Replace\": {\"$repo/trzsz/zz_d9_demo_test.go\": \"$here/demo_test.go\"}}" > "$tmp/ov.json"
cd "$repo" && go test -overlay "$tmp/ov.json" -vet=off -count=1 -timeout 60s -run TestD9 ./trzsz
