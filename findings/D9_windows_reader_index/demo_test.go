package trzsz

import "testing"

// D9 (C13 / C03): readLineOnWindows looks for the line feed after the '!' terminator at buf[b.nextIdx],
// but buf is only the unread rest of the chunk (nextBuf[oldIdx:]) while b.nextIdx is an offset into the
// whole chunk. When a line does not start at the beginning of its chunk, the byte that is tested is not
// the byte after the '!': if it happens to be a line feed, the byte that really follows the '!' is
// skipped although it is not a line feed. A relay forwards what is left of the chunk after the handshake
// line with popBuffer, so that byte is lost.
func TestD9WindowsReaderSkipsTheRightByte(t *testing.T) {
	b := newTrzszBuffer()
	b.addBuffer([]byte("a!\nb!Zxx\nrest"))
	l1, err := b.readLineOnWindows(nil)
	if err != nil || string(l1) != "a" {
		t.Fatalf("first line: %q %v", l1, err)
	}
	l2, err := b.readLineOnWindows(nil)
	if err != nil || string(l2) != "b" {
		t.Fatalf("second line: %q %v", l2, err)
	}
	if rest := b.popBuffer(); string(rest) != "Zxx\nrest" {
		t.Fatalf("bytes after the second line: got %q, want %q (a byte that is not a line feed was skipped)", rest, "Zxx\nrest")
	}
}
