#!/bin/bash
# usage: run.sh [repo]  -> exit 0 if a lost acknowledgement line is detected (fixed), 1 if success is reported with a corrupted file (defect present)
export GOFLAGS=-mod=mod GOPROXY=off GOSUMDB=off GOTOOLCHAIN=local
repo="${1:-/repo}"; here="$(cd "$(dirname "$0")" && pwd)"
tmp=$(mktemp -d); trap 'rm -rf "$tmp"' EXIT
echo "{\"Replace\": {\"$repo/trzsz/zz_d8_demo_test.go\": \"$here/demo_test.go\"}}" > "$tmp/ov.json"
cd "$repo" && go test -overlay "$tmp/ov.json" -vet=off -count=1 -timeout 180s -run TestD8LostHashAck ./trzsz
