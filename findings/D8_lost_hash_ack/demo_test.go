package trzsz

import (
	"bytes"
	"os"
	"path/filepath"
	"strings"
	"sync"
	"testing"
	"time"
)

// D8 (C02): during the prefix-hash resume of protocols 3/4 the sender took whatever acknowledgement came
// next as the acknowledgement of the next block. If ONE acknowledgement line is lost on the connection
// (the receiver -> sender direction), the sender resumes from an older offset than the receiver cut its
// file at; the SIZE echo, the chunk echoes and the MD5 (all over the bytes sent) agree, both ends report
// success, and the destination holds a duplicated block.
type d8Writer struct {
	peer **trzszTransfer
	mu   sync.Mutex
	seen int
	drop int // index (0-based) of the #SUCC line to drop: 0 answers NUM, 1 answers NAME, 2 and 3 acknowledge the first two hashes
	did  *bool
}

func (w *d8Writer) Write(p []byte) (int, error) {
	buf := append([]byte(nil), p...)
	w.mu.Lock()
	if strings.HasPrefix(string(buf), "#SUCC:") {
		if w.seen == w.drop {
			w.seen++
			*w.did = true
			w.mu.Unlock()
			return len(p), nil // the line is lost
		}
		w.seen++
	}
	w.mu.Unlock()
	(*w.peer).addReceivedData(buf, false)
	return len(p), nil
}

type d8Plain struct{ peer **trzszTransfer }

func (w d8Plain) Write(p []byte) (int, error) {
	(*w.peer).addReceivedData(append([]byte(nil), p...), false)
	return len(p), nil
}

func d8Content(n int, seed uint32) []byte {
	b := make([]byte, n)
	x := seed
	for i := range b {
		x = x*1664525 + 1013904223
		b[i] = byte(x >> 24)
	}
	return b
}

func TestD8LostHashAck(t *testing.T) {
	const block = 10 * 1024 * 1024
	src := d8Content(2*block+4096, 7)
	prev := append([]byte(nil), src...)
	prev[2*block+100] ^= 0x55 // the previous destination differs only in the third (last) block
	root := t.TempDir()
	srcPath := filepath.Join(root, "data.bin")
	dstDir := filepath.Join(root, "dst")
	os.MkdirAll(dstDir, 0755)
	os.WriteFile(srcPath, src, 0644)
	os.WriteFile(filepath.Join(dstDir, "data.bin"), prev, 0644)

	var sender, receiver *trzszTransfer
	dropped := false
	sender = newTransfer(d8Plain{&receiver}, nil, false, nil)
	receiver = newTransfer(&d8Writer{peer: &sender, drop: 3, did: &dropped}, nil, false, nil)
	for _, tr := range []*trzszTransfer{sender, receiver} {
		tr.transferConfig.Protocol = 4
		tr.transferConfig.Overwrite = true
		tr.transferConfig.Timeout = 5
		tr.transferConfig.Newline = "\n"
		tr.transferConfig.MaxBufSize = 10 * 1024 * 1024
	}
	srcFiles, err := checkPathsReadable([]string{srcPath}, false)
	if err != nil {
		t.Fatal(err)
	}
	sc, rc := make(chan error, 1), make(chan error, 1)
	go func() { _, e := sender.sendFiles(srcFiles, nil); sc <- e }()
	go func() { _, e := receiver.recvFiles(dstDir, nil); rc <- e }()
	var serr, rerr error
	for i := 0; i < 2; i++ {
		select {
		case serr = <-sc:
			if serr != nil {
				receiver.stopTransferringFiles(false)
			}
		case rerr = <-rc:
			if rerr != nil {
				sender.stopTransferringFiles(false)
			}
		case <-time.After(60 * time.Second):
			t.Fatal("transfer did not end")
		}
	}
	if !dropped {
		t.Fatal("the fault was not injected")
	}
	got, _ := os.ReadFile(filepath.Join(dstDir, "data.bin"))
	if (serr == nil || rerr == nil) && !bytes.Equal(got, src) {
		t.Fatalf("one acknowledgement line lost: sender err=%v receiver err=%v, yet the destination (%d bytes) differs from the source (%d bytes)", serr, rerr, len(got), len(src))
	}
}
