package trzsz

import (
	"bytes"
	"encoding/json"
	"os"
	"path/filepath"
	"sync"
	"testing"
	"time"
)

// seedDemoLink is one direction of an in-memory connection between two transfers.
// With dupMatchAck set, the first prefix-hash acknowledgement that reports a match
// is delivered twice: a plain "bytes duplicated on the connection" fault.
type seedDemoLink struct {
	mu          sync.Mutex
	peer        *trzszTransfer
	dupMatchAck bool
	duplicated  int
}

func seedDemoIsMatchAck(line []byte) bool {
	if !bytes.HasPrefix(line, []byte("#SUCC:")) || !bytes.HasSuffix(line, []byte("\n")) {
		return false
	}
	payload, err := decodeString(string(line[len("#SUCC:") : len(line)-1]))
	if err != nil {
		return false
	}
	var ack map[string]interface{}
	if err := json.Unmarshal(payload, &ack); err != nil {
		return false
	}
	match, ok := ack["match"].(bool)
	_, hasStep := ack["step"]
	return ok && match && hasStep
}

func (l *seedDemoLink) Write(p []byte) (int, error) {
	l.mu.Lock()
	defer l.mu.Unlock()
	l.peer.addReceivedData(append([]byte(nil), p...), false)
	if l.dupMatchAck && l.duplicated == 0 && seedDemoIsMatchAck(p) {
		l.duplicated++
		l.peer.addReceivedData(append([]byte(nil), p...), false)
	}
	return len(p), nil
}

func seedDemoFill(buf []byte, seed uint64) {
	x := seed
	for i := range buf {
		x ^= x << 13
		x ^= x >> 7
		x ^= x << 17
		buf[i] = byte(x >> 24)
	}
}

// TestSeedDemoDuplicatedHashAck resumes an upload over an existing destination whose first
// block equals the source while the following blocks do not, and duplicates one line of the
// hash exchange on the wire. Whoever reports the file as saved must have left a destination
// that is byte-identical to the source.
func TestSeedDemoDuplicatedHashAck(t *testing.T) {
	const name = "blob.bin"
	size := 2*kPrefixHashStep + 4096

	src := make([]byte, size)
	seedDemoFill(src, 0x9e3779b97f4a7c15)
	old := make([]byte, size)
	copy(old, src[:kPrefixHashStep])
	seedDemoFill(old[kPrefixHashStep:], 0x2545f4914f6cdd1d)

	srcDir, dstDir := t.TempDir(), t.TempDir()
	srcPath, dstPath := filepath.Join(srcDir, name), filepath.Join(dstDir, name)
	if err := os.WriteFile(srcPath, src, 0644); err != nil {
		t.Fatal(err)
	}
	if err := os.WriteFile(dstPath, old, 0644); err != nil {
		t.Fatal(err)
	}

	files, err := checkPathsReadable([]string{srcPath}, false)
	if err != nil {
		t.Fatal(err)
	}

	sender := newTransfer(nil, nil, false, nil)
	receiver := newTransfer(nil, nil, false, nil)
	toReceiver := &seedDemoLink{peer: receiver}
	toSender := &seedDemoLink{peer: sender, dupMatchAck: true}
	sender.writer = toReceiver
	receiver.writer = toSender
	for _, tr := range []*trzszTransfer{sender, receiver} {
		tr.transferConfig.Binary = true
		tr.transferConfig.Overwrite = true
		tr.transferConfig.Timeout = 10
		tr.transferConfig.Protocol = kProtocolVersion4
		tr.transferConfig.CompressType = kCompressNo
	}

	type result struct {
		names []string
		err   error
	}
	sendDone, recvDone := make(chan result, 1), make(chan result, 1)
	go func() {
		names, err := sender.sendFiles(files, nil)
		sendDone <- result{names, err}
	}()
	go func() {
		names, err := receiver.recvFiles(dstDir, nil)
		recvDone <- result{names, err}
	}()

	var sendRes, recvRes result
	watchdog := time.After(28 * time.Second)
	for i := 0; i < 2; i++ {
		select {
		case sendRes = <-sendDone:
		case recvRes = <-recvDone:
		case <-watchdog:
			t.Fatal("transfer did not finish in time")
		}
	}
	t.Logf("sender: names=%v err=%v", sendRes.names, sendRes.err)
	t.Logf("receiver: names=%v err=%v", recvRes.names, recvRes.err)

	toSender.mu.Lock()
	duplicated := toSender.duplicated
	toSender.mu.Unlock()
	if duplicated != 1 {
		t.Fatalf("the fault was not injected (duplicated=%d)", duplicated)
	}

	if sendRes.err != nil && recvRes.err != nil {
		return // both sides ended with an error: nothing was reported as saved
	}
	got, err := os.ReadFile(dstPath)
	if err != nil {
		t.Fatal(err)
	}
	if !bytes.Equal(got, src) {
		diff := 0
		for diff < len(got) && diff < len(src) && got[diff] == src[diff] {
			diff++
		}
		t.Fatalf("reported as saved (sender err=%v, receiver err=%v) but the destination differs from the source: "+
			"%d bytes instead of %d, first difference at offset %d", sendRes.err, recvRes.err, len(got), len(src), diff)
	}
}
