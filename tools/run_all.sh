#!/bin/bash
# Runs every registered quick check on the real tree (refreshes /verif/evidence). Exit 0 iff all pass.
cd "$(dirname "$0")/.."
rc=0
python3 tools/sync_props.py || { echo "props out of sync with the tags in the contracts (tools/sync_props.py --fix)"; rc=1; }
for id in $(python3 -c "import json;print(' '.join(c['property_id'] for c in json.load(open('MANIFEST.json'))['checks']))"); do
  out=$(./check $id --tier "${1:-quick}" 2>&1); code=$?
  echo "$id exit=$code $(echo "$out" | grep '^property' | head -1)"
  echo "$out" | grep -E "VIOLATION|KNOWN-FINDING|TOOL ERROR|UNDECIDED|WARNING" | head -5
  [ $code -ne 0 ] && rc=1
done
python3-vt - <<'PY'
import json,jsonschema,glob
s=json.load(open('/root/.vp/EVIDENCE.schema.json'))
for f in sorted(glob.glob('/verif/evidence/*.json')):
    e=json.load(open(f)); jsonschema.validate(e,s)
    c=e['coverage']
    assert c['obligations']==c['discharged'], (f,c['obligations'],c['discharged'])
    # a claimed obligation that is not generated any more on the unchanged tree = stale baseline (clauses were
    # inserted into a shared contract): rebaseline that property before committing
    assert not c.get('missing_from_tree'), (f, 'stale baseline', c['missing_from_tree'][:5])
    assert not c.get('function_errors'), (f, 'function errors', c['function_errors'][:3])
print("evidence files valid")
PY
exit $rc
