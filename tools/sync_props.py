#!/usr/bin/env python3
"""Every function that carries a clause tagged for a property must be in that property's function list
(props/<ID>.json): prints what is missing; with --fix adds it."""
import re, json, sys, os
root = os.path.dirname(os.path.dirname(os.path.abspath(__file__)))
vc = open('/repo/trzsz/verif_contracts.go').read()
need = {}
for m in re.finditer(r'^//@ func (\S+)[^\n]*\n(.*?)^//@ end', vc, flags=re.M | re.S):
    for t in re.findall(r'\[((?:C\d\d)(?:,C\d\d)*)\]', m.group(2)):
        for pid in t.split(','):
            need.setdefault(pid, set()).add(m.group(1))
bad = 0
for pid in sorted(need):
    p = os.path.join(root, 'props', pid + '.json')
    d = json.load(open(p))
    missing = [f for f in sorted(need[pid]) if f not in d['functions']]
    if missing:
        bad += 1
        print(pid, 'missing:', missing)
        if '--fix' in sys.argv:
            d['functions'] += missing
            json.dump(d, open(p, 'w'), indent=1, ensure_ascii=False)
sys.exit(1 if bad and '--fix' not in sys.argv else 0)
