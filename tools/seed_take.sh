#!/bin/bash
# usage: seed_take.sh <ID> <name>  -> takes /tmp/wt_<ID>/_seed into seeded/<ID>_<name>, confirms it, removes the worktree, runs the check against it
set -u
export GOFLAGS=-mod=mod GOPROXY=off GOSUMDB=off GOTOOLCHAIN=local
cd "$(dirname "$0")/.."
id="$1"; name="$2"; d="seeded/${id}_$name"
mkdir -p "$d"
cp "/tmp/wt_$id/_seed/patch.diff" "/tmp/wt_$id/_seed/notes.txt" "/tmp/wt_$id/_seed/demo_test.go" "$d/" || exit 9
echo "=== $id $name"
timeout 900 tools/seed_confirm.sh "$PWD/$d" 2>&1 | tail -1
git -C /repo worktree remove --force "/tmp/wt_$id"; git -C /repo worktree prune
timeout 1200 tools/mutant_run.sh "$PWD/$d/patch.diff" "$id" 2>&1 | grep -E "VIOLATION|UNDECIDED|TOOL|PATCH|load|property|tool error" | cut -c1-230 | head -5
