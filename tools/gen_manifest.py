#!/usr/bin/env python3
"""Regenerates MANIFEST.json from tools/manifest_src.json (claims) + properties.jsonl."""
import json, subprocess, sys, os
here = os.path.dirname(os.path.abspath(__file__))
root = os.path.dirname(here)
props = [json.loads(l) for l in open(os.path.join(root, 'properties.jsonl'))]
src = json.load(open(os.path.join(here, 'manifest_src.json')))
claims = src['claims']
na = src['not_applicable']
hook_commits = subprocess.run(['git', '-C', '/repo', 'log', '--format=%H %s'], capture_output=True, text=True).stdout.splitlines()
hooks = [l.split()[0] for l in hook_commits if 'verif hook' in l]
checks = []
for p in props:
    c = claims.get(p['id'])
    if not c:
        continue
    checks.append({
        "property_id": p['id'],
        "quick_cmd": f"./check {p['id']} --tier quick",
        "thorough_cmd": f"./check {p['id']} --tier thorough",
        "evidence_file": f"/verif/evidence/{p['id']}.json",
        "replay_cmd_template": "cat {path}   # replay files are self-describing; confirmed ones are go tests: see first line",
        "engine": "govc",
        "level_claimed": {"category": "proof", "text": c['text'], "design_ref": c.get('design_ref', 'DESIGN.md section 3/' + p['id'])},
        "level_note": c['note'],
        "technique": c.get('technique', 'contract-based deductive verification: weakest-precondition VCs over go/ssa of the real functions, contracts as //@ comments, discharged by z3/cvc5'),
    })
nas = []
for p in props:
    if p['id'] in claims:
        continue
    nas.append({"property_id": p['id'], "reason": na.get(p['id'], "check not built yet (work in progress; see DESIGN.md section 3)")})
m = {
    "version": 1,
    "setup_cmd": "./setup.sh",
    "hooks": {"guard": "verif", "enable": "go build -tags verif ./... ; the only hook is the comment-only contracts file trzsz/verif_contracts.go, read by govc on every run",
              "baseline_off_cmd": "cd /repo && go test -vet=off -count=1 ./...", "source_commits": hooks, "add_only": True},
    "engines": [{"name": "govc", "path": "/verif/cmd/govc", "serves_properties": sorted(claims.keys()),
                 "kind_free_text": "verification-condition generator for Go written for this task: go/packages + go/ssa (x/tools v0.29.0) -> Boogie-style block VCs with a component heap model -> z3 5.1.0 / cvc5 1.0.3 / z3 4.8.12; contracts in /repo/trzsz/verif_contracts.go (//@ comments, build tag verif) and /verif/specs/trusted.spec (assumed)"}],
    "checks": checks,
    "not_applicable": nas,
    "notes": src.get('notes', ''),
}
json.dump(m, open(os.path.join(root, 'MANIFEST.json'), 'w'), indent=1)
print("checks:", [c['property_id'] for c in checks])
