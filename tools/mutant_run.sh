#!/bin/bash
# usage: mutant_run.sh <patch-file> <property-id>   -> runs the check against a scratch copy with the patch applied
set -u
patch="$1"; prop="$2"
scratch=$(mktemp -d /tmp/mutant.XXXXXX)
(cd /repo && git ls-files -z | xargs -0 cp --parents -t "$scratch")
if ! (cd "$scratch" && git apply --unsafe-paths "$patch" 2>/dev/null || patch -p1 -s < "$patch"); then echo "PATCH FAILED"; rm -rf "$scratch"; exit 9; fi
REPO="$scratch" VERIF_REPLAY_DIR="$scratch/.replay" VERIF_EVIDENCE_DIR="$scratch/.evidence" /verif/bin/govc check "$prop"
code=$?
rm -rf "$scratch"
exit $code
