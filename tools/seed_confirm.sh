#!/bin/bash
# usage: seed_confirm.sh <dir with patch.diff + demo_test.go>  -> confirms the seeded change ourselves in a scratch copy
set -u
export GOFLAGS=-mod=mod GOPROXY=off GOSUMDB=off GOTOOLCHAIN=local
d="$1"
scratch=$(mktemp -d /tmp/seedchk.XXXXXX)
(cd /repo && git ls-files -z | xargs -0 cp --parents -t "$scratch")
cp "$d/demo_test.go" "$scratch/trzsz/zz_seed_demo_test.go"
cd "$scratch"
echo "--- demo on ORIGINAL (must pass)"
go test -vet=off -count=1 -timeout 300s -run 'TestSeedDemo' ./trzsz 2>&1 | tail -3; orig=${PIPESTATUS[0]}
if ! (git apply --unsafe-paths "$d/patch.diff" 2>/dev/null || patch -p1 -s < "$d/patch.diff"); then echo "PATCH DOES NOT APPLY"; rm -rf "$scratch"; exit 9; fi
echo "--- build + existing tests WITH change (must pass)"
go build ./... 2>&1 | tail -3; b=$?
go test -vet=off -count=1 -timeout 600s -skip 'TestSeedDemo' ./... 2>&1 | tail -3; t=${PIPESTATUS[0]}
echo "--- demo WITH change (must fail)"
go test -vet=off -count=1 -timeout 300s -run 'TestSeedDemo' ./trzsz 2>&1 | tail -6; mut=${PIPESTATUS[0]}
echo "RESULT orig_demo_exit=$orig build_exit=$b tests_exit=$t mutant_demo_exit=$mut"
cd /; rm -rf "$scratch"
[ "$orig" = 0 ] && [ "$b" = 0 ] && [ "$t" = 0 ] && [ "$mut" != 0 ]
