#!/bin/bash
# Must-fail / must-pass corpus for the whole machinery.
#   selftest/mutants/<ID>_*.patch and seeded/<ID>_*/patch.diff : property-breaking changes -> the check of <ID> must exit 1 with a VIOLATION line
#   selftest/benign/<ID>_*.patch                                : behaviour-preserving changes -> the check of <ID> must exit 0
# Each change is applied to a scratch copy of /repo's working tree (never to /repo); evidence and replay files go to the scratch copy.
# usage: tools/selftest.sh [jobs]   (default 4)    -> summary in selftest/RESULTS.txt, exit 0 iff every expectation is met
cd "$(dirname "$0")/.."
export GOFLAGS=-mod=mod GOPROXY=off GOSUMDB=off GOTOOLCHAIN=local
jobs="${1:-4}"
list=$(mktemp)
for p in selftest/mutants/*.patch; do b=$(basename "$p"); echo "fail ${b:0:3} $PWD/$p" >> "$list"; done
for d in seeded/*/; do b=$(basename "$d"); want=fail
  # a seed whose meta.json says it is NOT detected (with the reason) is a documented limit, not a regression
  if grep -q '"detected_by": *"NOT detected' "${d}meta.json" 2>/dev/null; then want=miss; fi
  echo "$want ${b:0:3} $PWD/${d}patch.diff" >> "$list"; done
for p in selftest/benign/*.patch; do [ -e "$p" ] || continue; b=$(basename "$p"); echo "pass ${b:0:3} $PWD/$p" >> "$list"; done
for p in selftest/benign_known_alarm/*.patch; do [ -e "$p" ] || continue; b=$(basename "$p"); echo "knownalarm ${b:0:3} $PWD/$p" >> "$list"; done
run_one() {
  want="$1"; id="$2"; patch="$3"
  out=$(timeout 1200 tools/mutant_run.sh "$patch" "$id" 2>&1); code=$?
  vio=$(echo "$out" | grep -c '^VIOLATION')
  first=$(echo "$out" | grep '^VIOLATION' | head -1 | sed 's/.*obligation=//' | cut -c1-90)
  if [ "$want" = miss ]; then
    if [ $code -eq 1 ] && [ $vio -gt 0 ]; then echo "OK   caught-after-all  $id $(basename $(dirname $patch))/$(basename $patch)  [$first]"; else echo "OK   known-miss  $id $(basename $(dirname $patch))/$(basename $patch)  (documented in its meta.json)"; fi
  elif [ "$want" = knownalarm ]; then
    if [ $code -eq 0 ] && [ $vio -eq 0 ]; then echo "OK   quiet-after-all  $id $(basename $patch)"; else echo "OK   known-false-alarm  $id $(basename $patch)  (documented in selftest/benign_known_alarm/README.txt) [$first]"; fi
  elif [ "$want" = fail ]; then
    if [ $code -eq 1 ] && [ $vio -gt 0 ]; then echo "OK   caught  $id $(basename $(dirname $patch))/$(basename $patch)  [$first]"; else echo "BAD  MISSED  $id $patch (exit $code)"; fi
  else
    if [ $code -eq 0 ] && [ $vio -eq 0 ]; then echo "OK   quiet   $id $(basename $patch)"; else echo "BAD  ALARM   $id $patch (exit $code) [$first]"; fi
  fi
}
export -f run_one
xargs -a "$list" -P "$jobs" -L 1 bash -c 'run_one "$0" "$1" "$2"' | sort > selftest/RESULTS.txt
rm -f "$list"
cat selftest/RESULTS.txt | cut -c1-200
bad=$(grep -c '^BAD' selftest/RESULTS.txt)
echo "selftest: $(grep -c '^OK' selftest/RESULTS.txt) ok, $bad bad"
[ "$bad" = 0 ]
