#!/bin/bash
# usage: benign_run.sh <patch>  -> runs, against a scratch copy with the (behaviour-preserving) patch applied, the quick check
# of every property whose function list contains a function the patch touches, plus C12; prints one line per check.
set -u
export GOFLAGS=-mod=mod GOPROXY=off GOSUMDB=off GOTOOLCHAIN=local
patch="$1"
cd "$(dirname "$0")/.."
ids=$(python3 - "$patch" <<'PY'
import re,sys,json,glob
names=set()
for l in open(sys.argv[1]):
    m=re.match(r'@@ .* @@ func (\([^)]*\) )?(\w+)',l)
    if m:
        recv=m.group(1) or ''
        rt=re.search(r'\*?(\w+)\)',recv)
        names.add((rt.group(1)+'.' if rt else '')+m.group(2))
    m=re.match(r'[+-]func (\([^)]*\) )?(\w+)',l)
    if m:
        recv=m.group(1) or ''
        rt=re.search(r'\*?(\w+)\)',recv)
        names.add((rt.group(1)+'.' if rt else '')+m.group(2))
ids=set(['C12'])
for f in glob.glob('props/C*.json'):
    d=json.load(open(f))
    for fn in d['functions']:
        if fn.split('$')[0] in names: ids.add(d['id'])
print(' '.join(sorted(ids)), '|', ' '.join(sorted(names)))
PY
)
echo "touched: ${ids#*|}"
for id in ${ids%%|*}; do
  out=$(timeout 1200 tools/mutant_run.sh "$patch" "$id" 2>&1); code=$?
  vio=$(echo "$out" | grep '^VIOLATION' | head -2 | sed 's/.*obligation=//' | cut -c1-110 | tr '\n' ';')
  if [ $code -eq 0 ]; then echo "QUIET $id"; else echo "ALARM $id exit=$code $vio"; fi
done
