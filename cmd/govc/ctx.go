package main

import (
	"fmt"
	"go/token"
	"go/types"
	"sort"
	"strings"

	"golang.org/x/tools/go/ssa"
)

type Oblig struct {
	ID     string
	Kind   string
	Src    []string
	Desc   string
	Sel    string
	Safety bool
	Cover  bool // must NOT be discharged (vacuity probe)
	N      int  // number of program points aggregated
	Tags   []string
	Peer   bool // a safety obligation whose operand derives from peer-supplied data (taint.go)
}

type Item struct {
	Assert bool
	T      Term // as an assumption
	Ob     *Oblig
	G      Term // as a goal (skolemised); empty = same as T
}

type BlockVC struct {
	b      *ssa.BasicBlock
	name   string
	items  []Item
	in     *State
	out    *State
	term   func() Term // builds the terminator formula at assembly time
	isExit bool
}

type EdgeVC struct {
	from, to *BlockVC
	items    []Item
	back     bool
}

type State struct {
	m      map[string]Term
	parent *State
	blk    *BlockVC
	havoc  bool
	keep   func(string) bool
	priv   []privObj // objects no other code can reach: a havoc leaves their fields alone (escape.go)
}

type immutArr struct {
	ref, content Term
	comp         string
	blk          *ssa.BasicBlock
}

type privObj struct {
	ref Term
	T   types.Type
	blk *ssa.BasicBlock // where ref is defined: the fact is used only in blocks this one dominates
}

type Loc struct {
	Kind string // field elem cell global
	Comp string
	Sort string // sort of the component's stored value (root)
	Ref  Term
	Idx  Term
	Path []pathEl
	T    types.Type // type of the value at this location
	Root types.Type // type of root stored value
}

type pathEl struct {
	field int        // >=0 : struct field
	idx   Term       // when field<0: array index
	T     types.Type // type of the container at this step
}

type LoopInfo struct {
	head      *ssa.BasicBlock
	body      map[*ssa.BasicBlock]bool
	latches   []*ssa.BasicBlock
	ord       int
	spec      *LoopSpec
	mod       map[string]bool
	modAll    bool
	minPos    token.Pos
	m0        Term // decreases measure at head
	autoInv   []func(phiVal func(*ssa.Phi) Term) Term
	frameRefs map[string][]ssa.Value // comp -> loop-invariant base objects stored through in the loop
	frameBad  map[string]bool
}

type FnCtx struct {
	g            *Gen
	fn           *ssa.Function
	name         string
	spec         *FuncSpec
	tt           *typeTable
	decls        []string
	declared     map[string]bool
	axioms       []string
	fresh        int
	vals         map[ssa.Value]Term
	tuples       map[ssa.Value][]Term
	locs         map[ssa.Value]*Loc
	blocks       map[*ssa.BasicBlock]*BlockVC
	order        []*ssa.BasicBlock
	edges        map[string]*EdgeVC
	exit         *BlockVC
	cur          *BlockVC
	st           *State
	entry        *State
	obls         []*Oblig
	oblByID      map[string]*Oblig
	compSort     map[string]string
	loops        map[*ssa.BasicBlock]*LoopInfo
	warnings     []string
	defers       []*ssa.Defer
	trusted      map[string]bool
	uncontr      map[string]bool
	inferredPure map[string]bool
	specWFDone   map[string]bool
	modDetail    *[]modTarget
	extGlobals   map[string]bool
	callRes      map[string][]callSiteRes // callee -> results of each call site, in SSA order
	results      []Term
	ghostEnv     map[string]TV
	occ          map[string]int
	boxDecl      map[string]bool
	pureDecl     map[string]bool
	strLits      map[string]Term
	lemmaMode    bool
	selCnt       int
	active       map[*Oblig]bool
	curDefs      *[]string
	storeDefs    map[Term]storeDef
	private      []privObj
	hintSeen     map[string]bool // program points ("before <key> assert") met while translating
	immutArr     []immutArr      // byte arrays that hold a string's bytes and can never be written (instr.go)
	constComps   map[string]bool // components of package variables that never change after initialisation
	frozenFV     map[*ssa.FreeVar]Term
	pointSites   map[string]int
	emitErr      func(map[*Oblig]bool) (string, error)
}

// storeDef records that a component version is store(base, ref, inner): lets reads/writes
// through a syntactically identical ref skip one level of array nesting.
type storeDef struct {
	base, ref, inner Term
}

// inner returns (select comp ref), simplified through a known store definition.
func (c *FnCtx) inner(comp Term, ref Term) Term {
	if d, ok := c.storeDefs[comp]; ok && d.ref == ref {
		return d.inner
	}
	return app("select", comp, ref)
}

// storeInner returns the term store(comp, ref, val) collapsed over an identical earlier store.
func (c *FnCtx) storeInner(comp Term, ref Term, val Term) (Term, storeDef) {
	base := comp
	if d, ok := c.storeDefs[comp]; ok && d.ref == ref {
		base = d.base
	}
	return app("store", base, ref, val), storeDef{base, ref, val}
}

type callSiteRes struct {
	res   []Term
	types []types.Type
	post  *State // the state right after the call returned
}

type TV struct {
	T   Term
	Ty  types.Type
	Loc *Loc // non-nil: value must be loaded from this location in the env's state
}

func (g *Gen) newCtx(fn *ssa.Function) *FnCtx {
	c := &FnCtx{g: g, fn: fn, tt: newTypeTable(g.tpkg), declared: map[string]bool{},
		vals: map[ssa.Value]Term{}, tuples: map[ssa.Value][]Term{}, locs: map[ssa.Value]*Loc{},
		blocks: map[*ssa.BasicBlock]*BlockVC{}, edges: map[string]*EdgeVC{}, oblByID: map[string]*Oblig{},
		compSort: map[string]string{}, loops: map[*ssa.BasicBlock]*LoopInfo{}, trusted: map[string]bool{},
		uncontr: map[string]bool{}, inferredPure: map[string]bool{}, specWFDone: map[string]bool{}, extGlobals: map[string]bool{}, callRes: map[string][]callSiteRes{}, ghostEnv: map[string]TV{}, occ: map[string]int{}, boxDecl: map[string]bool{},
		pureDecl: map[string]bool{}, strLits: map[string]Term{}, storeDefs: map[Term]storeDef{}, frozenFV: map[*ssa.FreeVar]Term{}}
	if fn != nil {
		c.name = g.fnName(fn)
		c.spec = g.specs.Funcs[c.name]
	}
	return c
}

func (c *FnCtx) warn(format string, a ...interface{}) {
	w := fmt.Sprintf(format, a...)
	for _, x := range c.warnings {
		if x == w {
			return
		}
	}
	c.warnings = append(c.warnings, w)
}

func (c *FnCtx) declare(name, sort string) Term {
	if !c.declared[name] {
		c.declared[name] = true
		c.decls = append(c.decls, fmt.Sprintf("(declare-const %s %s)", name, sort))
	}
	return name
}

func (c *FnCtx) declareFun(name string, args []string, ret string) {
	if !c.declared[name] {
		c.declared[name] = true
		c.decls = append(c.decls, fmt.Sprintf("(declare-fun %s (%s) %s)", name, strings.Join(args, " "), ret))
	}
}

func (c *FnCtx) freshName(prefix string) string {
	c.fresh++
	return fmt.Sprintf("%s!%d", prefix, c.fresh)
}

func (c *FnCtx) freshConst(prefix, sort string) Term {
	return c.declare(c.freshName(prefix), sort)
}

func (c *FnCtx) sortOf(t types.Type) string { return c.tt.sortOf(t) }

// ---------- obligations / items

func (c *FnCtx) oblig(id, kind, src string, safety bool) *Oblig {
	id = strings.TrimSpace(id) // (names are cut from source text; the baseline file trims its lines)
	if o, ok := c.oblByID[id]; ok {
		o.N++
		if src != "" {
			dup := false
			for _, s := range o.Src {
				if s == src {
					dup = true
				}
			}
			if !dup {
				o.Src = append(o.Src, src)
			}
		}
		return o
	}
	o := &Oblig{ID: id, Kind: kind, Safety: safety, N: 1}
	if src != "" {
		o.Src = []string{src}
	}
	c.selCnt++
	o.Sel = fmt.Sprintf("sel!%d", c.selCnt)
	c.declare(o.Sel, "Bool")
	c.obls = append(c.obls, o)
	c.oblByID[id] = o
	return o
}

func (c *FnCtx) assume(t Term) {
	if t == "true" || t == "" {
		return
	}
	c.cur.items = append(c.cur.items, Item{false, t, nil, ""})
}

func (c *FnCtx) assert(o *Oblig, t Term) {
	c.cur.items = append(c.cur.items, Item{true, t, o, ""})
}

func (c *FnCtx) assertG(o *Oblig, t, g Term) {
	c.cur.items = append(c.cur.items, Item{true, t, o, g})
}

func (c *FnCtx) edge(from, to *BlockVC, k int) *EdgeVC {
	key := fmt.Sprintf("%s>%s#%d", from.name, to.name, k)
	e, ok := c.edges[key]
	if !ok {
		e = &EdgeVC{from: from, to: to}
		c.edges[key] = e
	}
	return e
}

// ---------- state

func (c *FnCtx) comp(name, sort string) string {
	if s, ok := c.compSort[name]; ok {
		if s != sort {
			c.warn("component %s sort clash %s vs %s", name, s, sort)
		}
		return name
	}
	c.compSort[name] = sort
	return name
}

func (c *FnCtx) freshComp(comp string) Term {
	return c.freshConst(sanitize(comp), c.compSort[comp])
}

func (c *FnCtx) get(st *State, comp string) Term {
	if _, ok := c.compSort[comp]; !ok {
		panic("unregistered component " + comp)
	}
	var chain []*State
	for s := st; s != nil; s = s.parent {
		if t, ok := s.m[comp]; ok {
			for _, x := range chain {
				_ = x
			}
			return t
		}
		if s.havoc && (s.keep == nil || !s.keep(comp)) && !strings.HasPrefix(comp, "lghost$") && !c.constComps[comp] {
			// (ghost variables of the function under verification are not memory: no call changes them)
			t := c.freshComp(comp)
			s.m[comp] = t
			if comp == "$alloc" && s.parent != nil {
				// allocation counter only grows
				old := c.get(s.parent, comp)
				c.axioms = append(c.axioms, app("<=", old, t))
			}
			c.immutFacts(s, comp, t)
			for _, p := range s.priv {
				st, isSt := p.T.Underlying().(*types.Struct)
				if !isSt {
					// a non-escaping scalar local (e.g. the result cell of a function with defers)
					if c.cellComp(p.T) == comp && s.parent != nil {
						old := c.get(s.parent, comp)
						c.axioms = append(c.axioms, eq(app("select", t, p.ref), app("select", old, p.ref)))
					}
					continue
				}
				for k := 0; k < st.NumFields(); k++ {
					if isStruct(st.Field(k).Type()) {
						continue
					}
					if c.fieldComp(p.T, k) == comp && s.parent != nil {
						old := c.get(s.parent, comp)
						c.axioms = append(c.axioms, eq(app("select", t, p.ref), app("select", old, p.ref)))
					}
				}
			}
			return t
		}
		if s.parent == nil {
			t := c.blockIn(s.blk, comp)
			s.m[comp] = t
			c.immutFacts(s, comp, t)
			return t
		}
		chain = append(chain, s)
	}
	panic("state chain without root")
}

func (c *FnCtx) set(comp string, t Term) {
	c.st.m[comp] = t
}

// snapshot freezes the current state and returns it; translation continues in a child.
func (c *FnCtx) snapshot() *State {
	old := c.st
	c.st = &State{m: map[string]Term{}, parent: old, blk: old.blk}
	return old
}

func (c *FnCtx) havocState(keep func(string) bool) {
	old := c.st
	var priv []privObj
	for _, p := range c.private {
		// (in a block the defining block does not dominate, ref is an unconstrained constant)
		if c.cur != nil && c.cur.b != nil && p.blk != nil && p.blk.Dominates(c.cur.b) {
			priv = append(priv, p)
		} else if (c.cur == nil || c.cur.b == nil) && p.blk != nil && p.blk.Index == 0 {
			priv = append(priv, p)
		}
	}
	c.st = &State{m: map[string]Term{}, parent: old, blk: old.blk, havoc: true, keep: keep, priv: priv}
}

func (c *FnCtx) forwardPreds(b *BlockVC) []*EdgeVC {
	var es []*EdgeVC
	var keys []string
	for k, e := range c.edges {
		if e.to == b && !e.back {
			keys = append(keys, k)
		}
	}
	sort.Strings(keys)
	for _, k := range keys {
		es = append(es, c.edges[k])
	}
	return es
}

func (c *FnCtx) blockIn(b *BlockVC, comp string) Term {
	if b == nil {
		panic("blockIn nil")
	}
	if !b.isExit && b.b != nil && b.b.Index == 0 {
		return c.declare(sanitize(comp)+"!0", c.compSort[comp])
	}
	if !b.isExit {
		if li, ok := c.loops[b.b]; ok {
			if li.modAll || li.mod[comp] || comp == "$alloc" {
				t := c.freshComp(comp)
				if comp == "$alloc" {
					for _, e := range c.forwardPreds(b) {
						e.items = append(e.items, Item{false, app("<=", c.get(e.from.out, comp), t), nil, ""})
					}
				}
				return t
			}
		}
	}
	preds := c.forwardPreds(b)
	if len(preds) == 0 {
		// unreachable block; give it something
		return c.freshComp(comp)
	}
	var ts []Term
	same := true
	for _, e := range preds {
		t := c.get(e.from.out, comp)
		if len(ts) > 0 && t != ts[0] {
			same = false
		}
		ts = append(ts, t)
	}
	if same {
		return ts[0]
	}
	t := c.freshComp(comp)
	for i, e := range preds {
		e.items = append(e.items, Item{false, eq(t, ts[i]), nil, ""})
	}
	return t
}

// ---------- allocation

func (c *FnCtx) allocRef() Term {
	c.comp("$alloc", "Int")
	old := c.get(c.st, "$alloc")
	r := c.freshConst("ref", "Int")
	c.assume(eq(r, app("+", old, "1")))
	c.set("$alloc", r)
	return r
}

// tyInv0: the type invariant of a value that exists since function entry.
func (c *FnCtx) tyInv0(x Term, t types.Type) Term {
	if c.entry == nil {
		return c.tyInv(x, t)
	}
	saved := c.st
	c.st = c.entry
	r := c.tyInv(x, t)
	c.st = saved
	return r
}

func (c *FnCtx) curAlloc() Term {
	c.comp("$alloc", "Int")
	return c.get(c.st, "$alloc")
}

// ---------- components by type

func (c *FnCtx) fieldComp(st types.Type, k int) string {
	s := st.Underlying().(*types.Struct)
	return c.comp(fmt.Sprintf("F$%s$%s", c.tt.typeName(st), s.Field(k).Name()), "(Array Int "+c.sortOf(s.Field(k).Type())+")")
}

func (c *FnCtx) elemComp(el types.Type) string {
	return c.comp("Elem$"+c.tt.typeName(el), "(Array Int (Array Int "+c.sortOf(el)+"))")
}

func (c *FnCtx) cellComp(t types.Type) string {
	return c.comp("Cell$"+c.tt.typeName(t), "(Array Int "+c.sortOf(t)+")")
}

func (c *FnCtx) globalComp(g *ssa.Global) string {
	el := g.Type().(*types.Pointer).Elem()
	name := g.Name()
	if g.Pkg != c.g.pkg && g.Pkg != nil {
		name = g.Pkg.Pkg.Name() + "." + name
	}
	comp := c.comp("G$"+sanitize(name), c.sortOf(el))
	if c.g.constGlobals[g] {
		if c.constComps == nil {
			c.constComps = map[string]bool{}
		}
		c.constComps[comp] = true
	}
	return comp
}

// ---------- zero values and type invariants

func (c *FnCtx) zero(t types.Type) Term {
	switch u := t.(type) {
	case *MathArr:
		return "((as const " + c.sortOf(t) + ") " + c.zero(u.Elem) + ")"
	}
	switch u := t.Underlying().(type) {
	case *types.Basic:
		switch {
		case u.Info()&types.IsBoolean != 0:
			return "false"
		case u.Info()&types.IsString != 0:
			return "(mk-str ((as const (Array Int Int)) 0) 0)"
		case u.Info()&types.IsInteger != 0:
			return "0"
		case u.Info()&(types.IsFloat|types.IsComplex) != 0:
			return "0.0"
		}
		return "0"
	case *types.Slice:
		return "(mk-slice 0 0 0 0)"
	case *types.Struct:
		name := c.sortOf(t)
		if u.NumFields() == 0 {
			return "mk$" + name
		}
		var fs []Term
		for i := 0; i < u.NumFields(); i++ {
			fs = append(fs, c.zero(u.Field(i).Type()))
		}
		return app("mk$"+name, fs...)
	case *types.Array:
		return "((as const " + c.sortOf(t) + ") " + c.zero(u.Elem()) + ")"
	}
	return "0"
}

// tyInv returns the well-formedness constraint for a value of Go type t.
func (c *FnCtx) tyInv(x Term, t types.Type) Term {
	switch t.(type) {
	case *MathArr:
		return "true"
	}
	switch u := t.Underlying().(type) {
	case *types.Basic:
		switch {
		case u.Info()&types.IsInteger != 0:
			lo, hi, _, _ := intRange(t)
			return and(app("<=", numStr(lo), x), app("<=", x, numStr(hi)))
		case u.Info()&types.IsString != 0:
			return app("<=", "0", app("str-len", x))
		}
		return "true"
	case *types.Slice:
		return app("slice-wf", x, c.curAlloc())
	case *types.Pointer, *types.Map:
		return app("<=", x, c.curAlloc())
	}
	return "true"
}

// immutFacts: in a freshly introduced version t of a byte-array component (after a havocing call, or at the
// entry of a block) the immutable arrays defined in a dominating block still hold their string's bytes.
func (c *FnCtx) immutFacts(s *State, comp string, t Term) {
	if s.blk == nil || s.blk.b == nil {
		return
	}
	for _, im := range c.immutArr {
		if im.comp == comp && im.blk != nil && im.blk != s.blk.b && im.blk.Dominates(s.blk.b) {
			c.axioms = append(c.axioms, eq(app("select", t, im.ref), im.content))
		}
	}
}
