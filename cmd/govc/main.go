package main

import (
	ssapkg "golang.org/x/tools/go/ssa"
	"flag"
	"fmt"
	"os"
	"strings"
	"time"
)

func env(k, d string) string {
	if v := os.Getenv(k); v != "" {
		return v
	}
	return d
}

func loadAll(repo string) (*Gen, error) {
	g, err := LoadProgram(repo, "verif")
	if err != nil {
		return nil, err
	}
	g.specs = NewSpecs()
	verif := env("VERIF_DIR", "/verif")
	if err := g.specs.LoadFile(verif+"/specs/trusted.spec", ""); err != nil {
		return nil, err
	}
	cf := repo + "/trzsz/verif_contracts.go"
	if _, err := os.Stat(cf); err == nil {
		if err := g.specs.LoadFile(cf, "//@"); err != nil {
			return nil, err
		}
	}
	g.specs.PurePkgs["$purevar"] = true
	g.inferPure()
	return g, nil
}

func main() {
	if len(os.Args) < 2 {
		fmt.Println("usage: govc <vc|check|sweep|...>")
		os.Exit(2)
	}
	switch os.Args[1] {
	case "vc":
		cmdVC(os.Args[2:])
	case "check":
		cmdCheck(os.Args[2:])
	case "ssa":
		cmdSSA(os.Args[2:])
	case "callees":
		cmdCallees()
	case "list":
		g, err := loadAll(env("REPO", "/repo"))
		if err != nil {
			fmt.Println(err)
			os.Exit(2)
		}
		for _, n := range g.sortedFuncNames() {
			fmt.Println(n)
		}
	default:
		fmt.Println("unknown command", os.Args[1])
		os.Exit(2)
	}
}

func cmdVC(args []string) {
	fs := flag.NewFlagSet("vc", flag.ExitOnError)
	keep := fs.Bool("keep", false, "keep smt files")
	joint := fs.Bool("joint", true, "joint query first")
	tmo := fs.Int("t", 10, "timeout seconds")
	dump := fs.Bool("dump", false, "print SMT")
	kinds := fs.String("kinds", "", "only these kinds (comma)")
	fs.Parse(args)
	g, err := loadAll(env("REPO", "/repo"))
	if err != nil {
		fmt.Println("load:", err)
		os.Exit(2)
	}
	names := fs.Args()
	if len(names) == 1 && names[0] == "all" {
		names = g.sortedFuncNames()
	}
	kset := map[string]bool{}
	for _, k := range strings.Split(*kinds, ",") {
		if k != "" {
			kset[k] = true
		}
	}
	opts := VerifyOpts{WorkDir: env("GOVC_WORK", "/tmp/govc-work"), Timeout: time.Duration(*tmo) * time.Second, JointFirst: *joint, KeepFiles: *keep, Covers: true}
	if len(kset) > 0 {
		opts.Only = func(o *Oblig) bool { return kset[o.Kind] }
	}
	results := make([]*FuncResult, len(names))
	var tasks []func()
	for i, n := range names {
		i, n := i, n
		tasks = append(tasks, func() {
			if *dump {
				_, base, err := g.prepare(n)
				if err != nil {
					fmt.Println("ERR", err)
				}
				fmt.Println(base)
				return
			}
			results[i] = g.verifyFunc(n, opts)
		})
	}
	parallel(16, tasks)
	tot, ok := 0, 0
	for _, fr := range results {
		if fr == nil {
			continue
		}
		if fr.Err != "" {
			fmt.Printf("FUNC %s ERROR %s\n", fr.Name, fr.Err)
			continue
		}
		fmt.Printf("FUNC %s  (%d obligations, %.1fs, %d bytes)\n", fr.Name, len(fr.Obls), fr.Secs, fr.SMTBytes)
		for _, w := range fr.Warnings {
			fmt.Printf("   warn: %s\n", w)
		}
		for _, o := range fr.Obls {
			mark := "ok  "
			if o.Cover {
				if o.Answer == "unsat" {
					mark = "VACUOUS"
				} else {
					mark = "cov "
				}
			} else {
				tot++
				if o.Answer == "unsat" {
					ok++
				} else {
					mark = "FAIL"
				}
			}
			j := ""
			if o.Joint {
				j = " joint"
			}
			fmt.Printf("   %s %-60s %s %s %.2fs%s %v\n", mark, o.ID, o.Answer, o.Solver, o.Secs, j, o.Src)
		}
	}
	fmt.Printf("TOTAL %d/%d discharged\n", ok, tot)
}


func cmdCallees() {
	g, err := loadAll(env("REPO", "/repo"))
	if err != nil {
		fmt.Println(err)
		os.Exit(2)
	}
	cnt := map[string]int{}
	for _, n := range g.sortedFuncNames() {
		fn := g.funcs[n]
		c := g.newCtx(fn)
		for _, b := range fn.Blocks {
			for _, ins := range b.Instrs {
				if ci, ok := ins.(interface{ Common() *ssapkg.CallCommon }); ok {
					cc := ci.Common()
					info := c.resolveCallee(cc)
					if info.builtin != "" {
						continue
					}
					tag := "repo"
					if info.external {
						tag = "ext"
					}
					if g.specs.Funcs[info.name] != nil {
						tag += "+spec"
					} else if info.external && g.specs.PurePkgs[info.pkgName] {
						tag += "+purepkg"
					}
					cnt[tag+" "+info.name]++
				}
			}
		}
	}
	var ks []string
	for k := range cnt {
		ks = append(ks, k)
	}
	sortStrings(ks)
	for _, k := range ks {
		fmt.Printf("%4d %s\n", cnt[k], k)
	}
}

func cmdSSA(names []string) {
	g, err := loadAll(env("REPO", "/repo"))
	if err != nil {
		fmt.Println(err)
		os.Exit(2)
	}
	for _, n := range names {
		if f := g.funcs[n]; f != nil {
			f.WriteTo(os.Stdout)
		} else {
			fmt.Println("no func", n)
		}
	}
}
