package main

import (
	"go/token"
	"go/types"

	"golang.org/x/tools/go/ssa"
)

// inferPure computes, by a syntactic fixpoint, the package functions that cannot write any memory
// that existed before the call: no stores except into objects they allocate themselves, no map
// updates, no channel operations, no goroutines/defers, and only calls to functions that are
// themselves inferred pure, declared pure by a contract, or in a package declared "purepkg".
// Such a function is treated at call sites as "assigns nothing" (results are arbitrary).
func (g *Gen) inferPure() {
	g.pure = map[string]bool{}
	cand := map[string]*ssa.Function{}
	for n, f := range g.funcs {
		if g.specs.Funcs[n] == nil {
			cand[n] = f
		}
	}
	pureNow := map[string]bool{}
	for n := range cand {
		pureNow[n] = true // optimistic, refined downwards
	}
	ownAlloc := func(v ssa.Value) bool {
		for i := 0; i < 8; i++ {
			switch x := v.(type) {
			case *ssa.Alloc:
				return true
			case *ssa.FieldAddr:
				v = x.X
			case *ssa.IndexAddr:
				if _, ok := x.X.Type().Underlying().(*types.Pointer); ok {
					v = x.X
				} else if ms, ok := x.X.(*ssa.MakeSlice); ok {
					_ = ms
					return true
				} else if sl, ok := x.X.(*ssa.Slice); ok {
					v = sl.X
				} else {
					return false
				}
			case *ssa.Slice:
				v = x.X
			default:
				return false
			}
		}
		return false
	}
	calleeOK := func(c *FnCtx, cc *ssa.CallCommon) bool {
		ci := c.resolveCallee(cc)
		if ci.builtin != "" {
			switch ci.builtin {
			case "len", "cap", "min", "max", "print", "println", "panic", "real", "imag", "complex":
				return true
			case "append", "copy":
				// append may write in place into caller-visible backing arrays
				return ci.builtin == "append" && len(cc.Args) > 0 && ownAlloc(cc.Args[0])
			}
			return false
		}
		if c.isAtomicOrSync(ci) {
			// atomics: only Load-like operations are effect-free
			n := ci.name
			return len(n) > 4 && (n[len(n)-4:] == "Load" || hasSuffixAny(n, "Load[", ".Err", ".Done"))
		}
		if spec := g.specs.Funcs[ci.name]; spec != nil {
			return spec.HasAssigns && !spec.AssignsAll && len(spec.Assigns) == 0
		}
		if ci.external {
			return g.specs.PurePkgs[ci.pkgName]
		}
		if ci.fn == nil {
			return false
		}
		return pureNow[ci.name]
	}
	for changed := true; changed; {
		changed = false
		for n, f := range cand {
			if !pureNow[n] {
				continue
			}
			c := g.newCtx(f)
			ok := true
			if f.Recover != nil {
				ok = false
			}
			for _, b := range f.Blocks {
				for _, ins := range b.Instrs {
					switch x := ins.(type) {
					case *ssa.Store:
						if !ownAlloc(x.Addr) {
							ok = false
						}
					case *ssa.MapUpdate, *ssa.Send, *ssa.Go, *ssa.Defer, *ssa.Select, *ssa.RunDefers, *ssa.Panic:
						if _, isPanic := ins.(*ssa.Panic); !isPanic {
							ok = false
						}
					case *ssa.UnOp:
						if x.Op == token.ARROW {
							ok = false
						}
					case *ssa.Call:
						if !calleeOK(c, &x.Call) {
							ok = false
						}
					}
				}
			}
			if !ok {
				pureNow[n] = false
				changed = true
			}
		}
	}
	for n, p := range pureNow {
		if p {
			g.pure[n] = true
		}
	}
}

func hasSuffixAny(s string, subs ...string) bool {
	for _, x := range subs {
		for i := 0; i+len(x) <= len(s); i++ {
			if s[i:i+len(x)] == x {
				return true
			}
		}
	}
	return false
}
