package main

import (
	"fmt"
	"strconv"
	"strings"
)

// Spec expression AST.
type Expr struct {
	Op   string // id int str char call index slice field un bin forall exists
	Name string // identifier, operator, literal text, field name, callee
	Args []*Expr
	Vars []VarDecl
	Trig [][]*Expr
	Pos  string
}

type VarDecl struct {
	Name string
	Type string // textual type
}

func (e *Expr) String() string {
	if e == nil {
		return "<nil>"
	}
	switch e.Op {
	case "id", "int", "real":
		return e.Name
	case "str":
		return strconv.Quote(e.Name)
	case "char":
		return "'" + e.Name + "'"
	case "call":
		var a []string
		for _, x := range e.Args {
			a = append(a, x.String())
		}
		return e.Name + "(" + strings.Join(a, ", ") + ")"
	case "index":
		return e.Args[0].String() + "[" + e.Args[1].String() + "]"
	case "slice":
		lo, hi := "", ""
		if e.Args[1] != nil {
			lo = e.Args[1].String()
		}
		if e.Args[2] != nil {
			hi = e.Args[2].String()
		}
		return e.Args[0].String() + "[" + lo + ":" + hi + "]"
	case "field":
		return e.Args[0].String() + "." + e.Name
	case "un":
		return e.Name + e.Args[0].String()
	case "bin":
		return "(" + e.Args[0].String() + " " + e.Name + " " + e.Args[1].String() + ")"
	case "forall", "exists":
		var v []string
		for _, d := range e.Vars {
			v = append(v, d.Name+" "+d.Type)
		}
		return "(" + e.Op + " " + strings.Join(v, ", ") + " :: " + e.Args[0].String() + ")"
	}
	return "?" + e.Op
}

type tok struct {
	kind string // id int str char op eof
	text string
}

type lexer struct {
	src  string
	pos  int
	toks []tok
}

func isIdentStart(c byte) bool {
	return c == '_' || c == '#' || (c >= 'a' && c <= 'z') || (c >= 'A' && c <= 'Z')
}
func isIdentChar(c byte) bool {
	return isIdentStart(c) || c == '$' || (c >= '0' && c <= '9')
}

func lex(src string) ([]tok, error) {
	var toks []tok
	i := 0
	for i < len(src) {
		c := src[i]
		switch {
		case c == ' ' || c == '\t' || c == '\n':
			i++
		case isIdentStart(c):
			j := i + 1
			for j < len(src) && isIdentChar(src[j]) {
				j++
			}
			toks = append(toks, tok{"id", src[i:j]})
			i = j
		case c >= '0' && c <= '9':
			j := i + 1
			for j < len(src) && (isIdentChar(src[j])) {
				j++
			}
			if j+1 < len(src) && src[j] == '.' && src[j+1] >= '0' && src[j+1] <= '9' {
				k := j + 1
				for k < len(src) && src[k] >= '0' && src[k] <= '9' {
					k++
				}
				toks = append(toks, tok{"real", src[i:k]})
				i = k
				continue
			}
			txt := src[i:j]
			// hex / plain
			if strings.HasPrefix(txt, "0x") || strings.HasPrefix(txt, "0X") {
				v, err := strconv.ParseInt(txt[2:], 16, 64)
				if err != nil {
					return nil, fmt.Errorf("bad hex literal %q", txt)
				}
				txt = strconv.FormatInt(v, 10)
			}
			toks = append(toks, tok{"int", txt})
			i = j
		case c == '"':
			j := i + 1
			for j < len(src) && src[j] != '"' {
				if src[j] == '\\' {
					j++
				}
				j++
			}
			if j >= len(src) {
				return nil, fmt.Errorf("unterminated string")
			}
			s, err := strconv.Unquote(src[i : j+1])
			if err != nil {
				return nil, fmt.Errorf("bad string %s: %v", src[i:j+1], err)
			}
			toks = append(toks, tok{"str", s})
			i = j + 1
		case c == '\'':
			j := i + 1
			for j < len(src) && src[j] != '\'' {
				if src[j] == '\\' {
					j++
				}
				j++
			}
			if j >= len(src) {
				return nil, fmt.Errorf("unterminated char")
			}
			r, _, _, err := strconv.UnquoteChar(src[i+1:j], '\'')
			if err != nil {
				return nil, fmt.Errorf("bad char %s: %v", src[i:j+1], err)
			}
			toks = append(toks, tok{"int", strconv.Itoa(int(r))})
			i = j + 1
		default:
			ops := []string{"<==>", "==>", "::", "==", "!=", "<=", ">=", "&&", "||", "++"}
			matched := false
			for _, op := range ops {
				if strings.HasPrefix(src[i:], op) {
					toks = append(toks, tok{"op", op})
					i += len(op)
					matched = true
					break
				}
			}
			if !matched {
				if strings.ContainsRune("+-*/%<>!()[]{}.,:?&|", rune(c)) {
					toks = append(toks, tok{"op", string(c)})
					i++
				} else {
					return nil, fmt.Errorf("unexpected character %q in %q", c, src)
				}
			}
		}
	}
	toks = append(toks, tok{"eof", ""})
	return toks, nil
}

type parser struct {
	toks []tok
	p    int
	src  string
}

func (p *parser) peek() tok { return p.toks[p.p] }
func (p *parser) next() tok { t := p.toks[p.p]; p.p++; return t }
func (p *parser) isOp(s string) bool {
	t := p.peek()
	return t.kind == "op" && t.text == s
}
func (p *parser) expectOp(s string) error {
	if !p.isOp(s) {
		return fmt.Errorf("expected %q at token %d (%q) in %q", s, p.p, p.peek().text, p.src)
	}
	p.p++
	return nil
}

func ParseExpr(src string) (*Expr, error) {
	toks, err := lex(src)
	if err != nil {
		return nil, err
	}
	p := &parser{toks: toks, src: src}
	e, err := p.parseExpr()
	if err != nil {
		return nil, err
	}
	if p.peek().kind != "eof" {
		return nil, fmt.Errorf("trailing tokens at %q in %q", p.peek().text, src)
	}
	return e, nil
}

// parseType reads a textual type up to (not including) ',' or '::' or ')' at depth 0.
func (p *parser) parseTypeText() string {
	var b strings.Builder
	depth := 0
	for {
		t := p.peek()
		if t.kind == "eof" {
			break
		}
		if t.kind == "op" {
			if depth == 0 && (t.text == "," || t.text == "::" || t.text == ")" || t.text == "{" || t.text == "=" || t.text == "==") {
				break
			}
			if t.text == "[" || t.text == "(" {
				depth++
			}
			if t.text == "]" || t.text == ")" {
				depth--
			}
		}
		b.WriteString(t.text)
		p.p++
	}
	return b.String()
}

func (p *parser) parseExpr() (*Expr, error) {
	t := p.peek()
	if t.kind == "id" && (t.text == "forall" || t.text == "exists") {
		p.p++
		q := &Expr{Op: t.text}
		for {
			n := p.next()
			if n.kind != "id" {
				return nil, fmt.Errorf("quantifier: expected variable name in %q", p.src)
			}
			ty := p.parseTypeText()
			q.Vars = append(q.Vars, VarDecl{n.text, ty})
			if p.isOp(",") {
				p.p++
				continue
			}
			break
		}
		for p.isOp("{") {
			p.p++
			var pats []*Expr
			for {
				e, err := p.parseIff()
				if err != nil {
					return nil, err
				}
				pats = append(pats, e)
				if p.isOp(",") {
					p.p++
					continue
				}
				break
			}
			if err := p.expectOp("}"); err != nil {
				return nil, err
			}
			q.Trig = append(q.Trig, pats)
		}
		if err := p.expectOp("::"); err != nil {
			return nil, err
		}
		body, err := p.parseExpr()
		if err != nil {
			return nil, err
		}
		q.Args = []*Expr{body}
		return q, nil
	}
	return p.parseIff()
}

func (p *parser) parseIff() (*Expr, error) {
	l, err := p.parseImp()
	if err != nil {
		return nil, err
	}
	for p.isOp("<==>") {
		p.p++
		r, err := p.parseImp()
		if err != nil {
			return nil, err
		}
		l = &Expr{Op: "bin", Name: "<==>", Args: []*Expr{l, r}}
	}
	return l, nil
}

func (p *parser) parseImp() (*Expr, error) {
	l, err := p.parseOr()
	if err != nil {
		return nil, err
	}
	if p.isOp("==>") {
		p.p++
		// right assoc; allow quantifier on the right
		var r *Expr
		if t := p.peek(); t.kind == "id" && (t.text == "forall" || t.text == "exists") {
			r, err = p.parseExpr()
		} else {
			r, err = p.parseImp()
		}
		if err != nil {
			return nil, err
		}
		return &Expr{Op: "bin", Name: "==>", Args: []*Expr{l, r}}, nil
	}
	return l, nil
}

func (p *parser) parseOr() (*Expr, error) {
	l, err := p.parseAnd()
	if err != nil {
		return nil, err
	}
	for p.isOp("||") {
		p.p++
		r, err := p.parseAnd()
		if err != nil {
			return nil, err
		}
		l = &Expr{Op: "bin", Name: "||", Args: []*Expr{l, r}}
	}
	return l, nil
}

func (p *parser) parseAnd() (*Expr, error) {
	l, err := p.parseCmp()
	if err != nil {
		return nil, err
	}
	for p.isOp("&&") {
		p.p++
		var r *Expr
		if t := p.peek(); t.kind == "id" && (t.text == "forall" || t.text == "exists") {
			r, err = p.parseExpr()
		} else {
			r, err = p.parseCmp()
		}
		if err != nil {
			return nil, err
		}
		l = &Expr{Op: "bin", Name: "&&", Args: []*Expr{l, r}}
	}
	return l, nil
}

func (p *parser) parseCmp() (*Expr, error) {
	l, err := p.parseAdd()
	if err != nil {
		return nil, err
	}
	// chained comparisons a <= b < c  ==> (a<=b) && (b<c)
	var result *Expr
	for {
		t := p.peek()
		if t.kind == "op" && (t.text == "==" || t.text == "!=" || t.text == "<" || t.text == "<=" || t.text == ">" || t.text == ">=") {
			p.p++
			r, err := p.parseAdd()
			if err != nil {
				return nil, err
			}
			c := &Expr{Op: "bin", Name: t.text, Args: []*Expr{l, r}}
			if result == nil {
				result = c
			} else {
				result = &Expr{Op: "bin", Name: "&&", Args: []*Expr{result, c}}
			}
			l = r
			continue
		}
		break
	}
	if result != nil {
		return result, nil
	}
	return l, nil
}

func (p *parser) parseAdd() (*Expr, error) {
	l, err := p.parseMul()
	if err != nil {
		return nil, err
	}
	for p.isOp("+") || p.isOp("-") {
		op := p.next().text
		r, err := p.parseMul()
		if err != nil {
			return nil, err
		}
		l = &Expr{Op: "bin", Name: op, Args: []*Expr{l, r}}
	}
	return l, nil
}

func (p *parser) parseMul() (*Expr, error) {
	l, err := p.parseUnary()
	if err != nil {
		return nil, err
	}
	for p.isOp("*") || p.isOp("/") || p.isOp("%") {
		op := p.next().text
		r, err := p.parseUnary()
		if err != nil {
			return nil, err
		}
		l = &Expr{Op: "bin", Name: op, Args: []*Expr{l, r}}
	}
	return l, nil
}

func (p *parser) parseUnary() (*Expr, error) {
	if p.isOp("!") || p.isOp("-") || p.isOp("*") {
		op := p.next().text
		e, err := p.parseUnary()
		if err != nil {
			return nil, err
		}
		return &Expr{Op: "un", Name: op, Args: []*Expr{e}}, nil
	}
	return p.parsePostfix()
}

func (p *parser) parsePostfix() (*Expr, error) {
	e, err := p.parsePrimary()
	if err != nil {
		return nil, err
	}
	for {
		switch {
		case p.isOp("."):
			p.p++
			n := p.next()
			if n.kind != "id" {
				return nil, fmt.Errorf("expected field name in %q", p.src)
			}
			e = &Expr{Op: "field", Name: n.text, Args: []*Expr{e}}
		case p.isOp("["):
			p.p++
			var lo, hi *Expr
			if !p.isOp(":") {
				lo, err = p.parseExpr()
				if err != nil {
					return nil, err
				}
			}
			if p.isOp(":") {
				p.p++
				if !p.isOp("]") {
					hi, err = p.parseExpr()
					if err != nil {
						return nil, err
					}
				}
				if err := p.expectOp("]"); err != nil {
					return nil, err
				}
				e = &Expr{Op: "slice", Args: []*Expr{e, lo, hi}}
			} else {
				if err := p.expectOp("]"); err != nil {
					return nil, err
				}
				e = &Expr{Op: "index", Args: []*Expr{e, lo}}
			}
		case p.isOp("("):
			// call: callee must be an identifier or field chain
			name := ""
			if e.Op == "id" {
				name = e.Name
			} else {
				return nil, fmt.Errorf("call of non-identifier in %q", p.src)
			}
			p.p++
			var args []*Expr
			for !p.isOp(")") {
				a, err := p.parseExpr()
				if err != nil {
					return nil, err
				}
				args = append(args, a)
				if p.isOp(",") {
					p.p++
				}
			}
			p.p++
			e = &Expr{Op: "call", Name: name, Args: args}
		default:
			return e, nil
		}
	}
}

func (p *parser) parsePrimary() (*Expr, error) {
	t := p.next()
	switch t.kind {
	case "id":
		return &Expr{Op: "id", Name: t.text}, nil
	case "int":
		return &Expr{Op: "int", Name: t.text}, nil
	case "real":
		return &Expr{Op: "real", Name: t.text}, nil
	case "str":
		return &Expr{Op: "str", Name: t.text}, nil
	case "op":
		if t.text == "(" {
			e, err := p.parseExpr()
			if err != nil {
				return nil, err
			}
			if err := p.expectOp(")"); err != nil {
				return nil, err
			}
			return e, nil
		}
	}
	return nil, fmt.Errorf("unexpected token %q in %q", t.text, p.src)
}
