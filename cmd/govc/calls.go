package main

import (
	"fmt"
	"go/token"
	"go/types"
	"strings"

	"golang.org/x/tools/go/ssa"
)

// ---------- prologue / epilogue

func (c *FnCtx) isNilable(name string) bool {
	return c.spec != nil && c.spec.Nilable[name]
}

func (c *FnCtx) prologue() {
	fn := c.fn
	root := c.st
	c.st = &State{m: map[string]Term{}, parent: root, blk: root.blk}
	c.assume(app("<=", "0", c.curAlloc())) // references are positive; 0 is nil
	for i, p := range fn.Params {
		t := c.declare("p$"+sanitize(p.Name()), c.sortOf(p.Type()))
		c.vals[p] = t
		c.assume(c.tyInv(t, p.Type()))
		isRecv := fn.Signature.Recv() != nil && i == 0
		switch p.Type().Underlying().(type) {
		case *types.Pointer:
			if isRecv || !c.isNilable(p.Name()) {
				c.assume(not(eq(t, "0")))
			}
		case *types.Interface:
			if p.Type().String() != "error" && !c.isNilable(p.Name()) {
				c.assume(not(eq(t, "0")))
			}
		case *types.Signature:
			if !c.isNilable(p.Name()) {
				c.assume(not(eq(t, "0")))
			}
		}
	}
	for _, fv := range fn.FreeVars {
		t := c.declare("fv$"+sanitize(fv.Name()), c.sortOf(fv.Type()))
		c.vals[fv] = t
		c.assume(c.tyInv(t, fv.Type()))
		if isPointer(fv.Type()) {
			c.assume(not(eq(t, "0")))
		}
	}
	res := fn.Signature.Results()
	for i := 0; i < res.Len(); i++ {
		c.results = append(c.results, c.declare(fmt.Sprintf("res$%d", i), c.sortOf(res.At(i).Type())))
	}
	if c.spec != nil {
		for _, gv := range c.spec.Ghost {
			ty, err := c.g.parseSpecType(gv.Type)
			if err != nil {
				panic(unsupported(fmt.Sprintf("%s: ghost %s: %v", c.spec.Src, gv.Name, err)))
			}
			t := c.declare("gh$"+sanitize(gv.Name), c.sortOf(ty))
			c.ghostEnv[gv.Name] = TV{T: t, Ty: ty}
		}
		env := c.fnEnv(c.st, nil, false)
		for _, r := range c.spec.Requires {
			c.assume(c.mustClause(r, env))
		}
		for _, gv := range c.spec.GhostVars {
			// a ghost variable starts with its declared value
			comp, _, _ := c.localGhost(gv.Name)
			if gv.Init == nil {
				continue
			}
			v, _ := c.tr(gv.Init.E, env)
			c.assume(eq(c.get(c.st, comp), v))
		}
	}
}

// fnEnv: environment for the function's own contract.
func (c *FnCtx) fnEnv(st, old *State, withResults bool) *Env {
	env := &Env{vars: map[string]TV{}, st: st, oldSt: old}
	fn := c.fn
	for i, p := range fn.Params {
		tv := TV{T: c.vals[p], Ty: p.Type()}
		env.vars[p.Name()] = tv
		k := i
		if fn.Signature.Recv() != nil {
			if i == 0 {
				env.vars["recv"] = tv
				continue
			}
			k = i - 1
		}
		env.vars[fmt.Sprintf("p%d", k)] = tv
	}
	for _, fv := range fn.FreeVars {
		// captured variables: the name denotes the variable's value
		el := fv.Type().(*types.Pointer).Elem()
		if isStruct(el) {
			env.vars[fv.Name()] = TV{T: c.vals[fv], Ty: fv.Type()}
		} else if a, ok := el.Underlying().(*types.Array); ok {
			_ = a
			env.vars[fv.Name()] = TV{T: c.vals[fv], Ty: fv.Type()}
		} else if t, ok := c.frozenFreeVar(fv); ok {
			// assigned once where it is declared and only read since: a constant
			env.vars[fv.Name()] = TV{T: t, Ty: el}
		} else {
			env.vars[fv.Name()] = TV{Ty: el, Loc: &Loc{Kind: "cell", Comp: c.cellComp(el), Ref: c.vals[fv], T: el, Root: el}}
		}
	}
	if withResults {
		res := fn.Signature.Results()
		for i := 0; i < res.Len(); i++ {
			tv := TV{T: c.results[i], Ty: res.At(i).Type()}
			env.vars[fmt.Sprintf("r%d", i)] = tv
			if n := res.At(i).Name(); n != "" && n != "_" {
				if _, clash := env.vars[n]; !clash {
					env.vars[n] = tv
				}
			}
			if i == res.Len()-1 && res.At(i).Type().String() == "error" {
				if _, clash := env.vars["err"]; !clash {
					env.vars["err"] = tv
				}
			}
		}
	}
	return env
}

func (c *FnCtx) epilogue() {
	c.cur = c.exit
	c.exit.in = &State{m: map[string]Term{}, blk: c.exit}
	c.st = &State{m: map[string]Term{}, parent: c.exit.in, blk: c.exit}
	hasReturn := false
	for _, e := range c.edges {
		if e.to == c.exit {
			hasReturn = true
		}
	}
	if hasReturn {
		cov := c.oblig(c.name+"/cover:exit", "cover", "", false)
		cov.Cover = true
		c.assert(cov, "false")
	}
	if c.spec != nil && !c.spec.Trusted {
		env := c.fnEnv(c.st, c.entry, true)
		for i, en := range c.spec.Ensures {
			o := c.oblig(fmt.Sprintf("%s/post#%d", c.name, i+1), "post", en.Src, false)
			o.Desc = en.Text
			o.Tags = en.Tags
			c.assertG(o, c.mustClause(en, env), c.mustGoal(en, env))
		}
		if c.spec.HasAssigns && !c.spec.AssignsAll {
			c.checkFrame()
		}
	}
	c.exit.out = c.st
	c.exit.term = func() Term { return "true" }
}

// checkFrame: every heap component the body changed must be covered by the assigns clause.
// frameFormulas: for every component in comps whose value in st differs from the function entry,
// the condition "unchanged outside the assigns clause's targets (for objects that existed at entry)".
// Returns (assumption form with quantifiers, goal form skolemised).
func (c *FnCtx) frameFormulas(st *State, comps []string) (assume, goal []Term) {
	env := c.fnEnv(c.entry, nil, false)
	targets, err := c.assignTargets(c.spec, env)
	if err != nil {
		panic(unsupported(err.Error()))
	}
	for _, comp := range comps {
		if comp == "$alloc" || strings.HasPrefix(comp, "lghost$") {
			continue // ghost variables of this function are invisible to callers
		}
		pre := c.get(c.entry, comp)
		post := c.get(st, comp)
		if pre == post {
			continue
		}
		srt := c.compSort[comp]
		whole := false
		var refs []Term
		for _, t := range targets {
			if t.comp == comp {
				if t.ref == "" {
					whole = true
				} else {
					refs = append(refs, t.ref)
				}
			}
		}
		if whole {
			continue
		}
		if !strings.HasPrefix(srt, "(Array Int ") {
			assume = append(assume, eq(pre, post))
			goal = append(goal, eq(pre, post))
			continue
		}
		// only refs that existed before the call matter (fresh objects are free)
		mk := func(q Term) Term {
			var excl []Term
			for _, r := range refs {
				excl = append(excl, not(eq(q, r)))
			}
			excl = append(excl, app("<=", q, c.get(c.entry, "$alloc")))
			return implies(and(excl...), eq(app("select", post, q), app("select", pre, q)))
		}
		sk := c.freshConst("sk$frame", "Int")
		assume = append(assume, fmt.Sprintf("(forall ((q$r Int)) (! %s :pattern ((select %s q$r))))", mk("q$r"), post))
		goal = append(goal, mk(sk))
	}
	return
}

func (c *FnCtx) checkFrame() {
	o := c.oblig(c.name+"/assigns", "assigns", c.spec.Src, false)
	var names []string
	for comp := range c.compSort {
		names = append(names, comp)
	}
	sortStrings(names)
	as, gs := c.frameFormulas(c.st, names)
	for i := range as {
		c.assertG(o, as[i], gs[i])
	}
}

// loopFrameInv: in a function with an assigns clause, "the function's frame holds so far" is an
// inductive invariant of every loop; it is asserted on the entry and back edges and assumed at the head.
func (c *FnCtx) loopFrameComps(li *LoopInfo) []string {
	if c.spec == nil || !c.spec.HasAssigns || c.spec.AssignsAll || c.spec.Trusted || li.modAll {
		return nil
	}
	var comps []string
	for comp := range li.mod {
		if _, ok := c.compSort[comp]; ok {
			comps = append(comps, comp)
		}
	}
	sortStrings(comps)
	return comps
}

// ---------- loops

func (c *FnCtx) domDepth(b *ssa.BasicBlock) int {
	d := 0
	for x := b.Idom(); x != nil; x = x.Idom() {
		d++
	}
	return d
}

func (c *FnCtx) loopEnv(li *LoopInfo, phiVal func(*ssa.Phi) Term, st *State, old *State) *Env {
	env := c.fnEnv(st, old, false)
	env.lookup = c.localLookup(li.head, -1, phiVal)
	return env
}

// localLookup resolves a source-level variable name at a program point: the phis of block h (when
// phiVal != nil, h is a loop head), otherwise the nearest dominating phi / debug reference; with
// upto >= 0 the instructions of h before index upto are also considered (a point inside h).
func (c *FnCtx) localLookup(h *ssa.BasicBlock, upto int, phiVal func(*ssa.Phi) Term) func(name string) (TV, bool) {
	if phiVal == nil {
		phiVal = func(p *ssa.Phi) Term { return c.vals[p] }
	}
	return func(name string) (TV, bool) {
		if name == "#i" {
			for _, ins := range h.Instrs {
				if phi, ok := ins.(*ssa.Phi); ok && phi.Comment == "rangeindex" {
					return TV{T: app("+", phiVal(phi), "1"), Ty: tInt}, true
				}
			}
			return TV{}, false
		}
		type cand struct {
			depth, idx int
			tv         TV
		}
		var best, bestMem *cand
		consider := func(b *ssa.BasicBlock, idx int, tv TV) {
			cd := &cand{c.domDepth(b), idx, tv}
			if best == nil || cd.depth > best.depth || (cd.depth == best.depth && cd.idx > best.idx) {
				best = cd
			}
			// a variable that lives in memory (captured by a closure, address taken): its current value is
			// what the cell holds now, never a value some earlier assignment mentioned
			if tv.Loc != nil && tv.Loc.Kind == "cell" {
				if bestMem == nil || cd.depth > bestMem.depth || (cd.depth == bestMem.depth && cd.idx > bestMem.idx) {
					bestMem = cd
				}
			}
		}
		for _, b := range c.order {
			if !(b == h || b.Dominates(h)) {
				continue
			}
			for idx, ins := range b.Instrs {
				switch x := ins.(type) {
				case *ssa.Phi:
					if x.Comment == name {
						if b == h {
							consider(b, idx+1000000, TV{T: phiVal(x), Ty: x.Type()})
						} else {
							consider(b, idx, TV{T: c.vals[x], Ty: x.Type()})
						}
					}
				case *ssa.Alloc:
					// a source variable kept in memory (captured by a closure): go/ssa names the cell after it
					if x.Comment != name || (b == h && upto >= 0 && idx >= upto) {
						continue
					}
					if sel := x.Type().Underlying().(*types.Pointer).Elem(); isStruct(sel) {
						// a struct variable lives in its object: name.f reads the object's field now
						if t, ok := c.vals[x]; ok {
							bestMem = &cand{1 << 30, idx, TV{T: t, Ty: x.Type()}}
						}
						continue
					}
					if !x.Heap {
						continue
					}
					if frozenCellStore(x) != nil {
						continue // assigned once: the value the assignment mentioned is the value
					}
					el := x.Type().Underlying().(*types.Pointer).Elem()
					if _, isArr := el.Underlying().(*types.Array); isArr || isStruct(el) {
						continue
					}
					if t, ok := c.vals[x]; ok {
						consider(b, idx, TV{Ty: el, Loc: &Loc{Kind: "cell", Comp: c.cellComp(el), Ref: t, T: el, Root: el}})
					}
				case *ssa.DebugRef:
					if b == h && (upto < 0 || idx >= upto) {
						continue
					}
					if x.Object() == nil || x.Object().Name() != name {
						continue
					}
					if v, isVar := x.Object().(*types.Var); !isVar || v.IsField() {
						continue // (a struct field that happens to share the name is not the variable)
					}
					if x.IsAddr {
						el := x.X.Type().Underlying().(*types.Pointer).Elem()
						if l, ok := c.locs[x.X]; ok {
							consider(b, idx, TV{Ty: el, Loc: l})
						} else if t, ok := c.vals[x.X]; ok {
							if isStruct(el) {
								consider(b, idx, TV{T: t, Ty: x.X.Type()})
							} else if _, isArr := el.Underlying().(*types.Array); isArr {
								consider(b, idx, TV{T: t, Ty: x.X.Type()})
							} else {
								consider(b, idx, TV{Ty: el, Loc: &Loc{Kind: "cell", Comp: c.cellComp(el), Ref: t, T: el, Root: el}})
							}
						}
					} else {
						if _, isConst := x.X.(*ssa.Const); isConst {
							consider(b, idx, TV{T: c.v(x.X), Ty: x.X.Type()})
						} else if t, ok := c.vals[x.X]; ok {
							consider(b, idx, TV{T: t, Ty: x.X.Type()})
						}
					}
				}
			}
		}
		if bestMem != nil {
			return bestMem.tv, true
		}
		if best != nil {
			return best.tv, true
		}
		return TV{}, false
	}
}

// invClause translates a loop invariant; if the changed code no longer has the names the invariant
// mentions, the invariant is dropped with a warning (what depended on it then fails to discharge and is
// reported under its own name) instead of making the whole function unverifiable.
func (c *FnCtx) invClause(inv *Clause, env *Env, goal bool) (t Term, ok bool) {
	var err error
	if goal {
		t, err = c.trClause(inv, env.withGoal(true))
	} else {
		t, err = c.trClause(inv, env)
	}
	if err != nil {
		c.warn("loop invariant dropped (does not apply to this code): %v", err)
		return "true", false
	}
	return t, true
}

func (c *FnCtx) loopPrefix(li *LoopInfo) string {
	return fmt.Sprintf("%s/loop%d", c.name, li.ord)
}

func (c *FnCtx) loopHead(li *LoopInfo) {
	h := li.head
	c.inferAutoInv(li)
	// entry edges: establish invariants
	for i, p := range h.Preds {
		if c.blocks[p] == nil {
			continue
		}
		e := c.predEdge(h, i)
		if e.back {
			continue
		}
		idx := i
		phiVal := func(phi *ssa.Phi) Term { return c.v(phi.Edges[idx]) }
		env := c.loopEnv(li, phiVal, e.from.out, c.entry)
		if li.spec != nil {
			for k, inv := range li.spec.Invariants {
				o := c.oblig(fmt.Sprintf("%s/inv#%d/init", c.loopPrefix(li), k+1), "inv-init", inv.Src, false)
				o.Desc = inv.Text
				o.Tags = inv.Tags
				saved := c.st
				c.st = e.from.out
				t, ok1 := c.invClause(inv, env, false)
				g, ok2 := c.invClause(inv, env, true)
				c.st = saved
				if ok1 && ok2 {
					e.items = append(e.items, Item{true, t, o, g})
				} else {
					c.dropOblig(o)
				}
			}
		}
	}
	fcomps := c.loopFrameComps(li)
	if len(fcomps) > 0 {
		for i, p := range h.Preds {
			if c.blocks[p] == nil {
				continue
			}
			e := c.predEdge(h, i)
			if e.back {
				continue
			}
			as, gs := c.frameFormulas(e.from.out, fcomps)
			o := c.oblig(c.loopPrefix(li)+"/frame/init", "inv-init", c.spec.Src, false)
			o.Desc = "the function's assigns clause holds when the loop is entered"
			for k := range as {
				e.items = append(e.items, Item{true, as[k], o, gs[k]})
			}
		}
		as, _ := c.frameFormulas(c.st, fcomps)
		for _, a := range as {
			c.assume(a)
		}
	}
	// assume at head
	phiSelf := func(phi *ssa.Phi) Term { return c.vals[phi] }
	env := c.loopEnv(li, phiSelf, c.st, c.entry)
	if li.spec != nil {
		for _, inv := range li.spec.Invariants {
			if t, ok := c.invClause(inv, env, false); ok {
				c.assume(t)
			}
		}
		if li.spec.Decreases != nil {
			t, _ := c.tr(li.spec.Decreases.E, env)
			m := c.freshConst("measure", "Int")
			c.assume(eq(m, t))
			li.m0 = m
		}
	}
	for _, ai := range li.autoInv {
		c.assume(ai(phiSelf))
	}
	c.loopFrame(li)
	cov := c.oblig(c.loopPrefix(li)+"/cover", "cover", "", false)
	cov.Cover = true
	c.assert(cov, "false")
}

// inferAutoInv: monotone counters: phi = phi + k (k>0) on every back edge, constant/dominating start.
func (c *FnCtx) inferAutoInv(li *LoopInfo) {
	h := li.head
	for _, ins := range h.Instrs {
		phi, ok := ins.(*ssa.Phi)
		if !ok {
			break
		}
		if !isInteger(phi.Type()) {
			continue
		}
		var inits []ssa.Value
		dir := 0
		good := true
		for i, p := range h.Preds {
			if c.blocks[p] == nil {
				continue
			}
			e := c.predEdge(h, i)
			if !e.back {
				inits = append(inits, phi.Edges[i])
				continue
			}
			d := c.stepDir(phi, phi.Edges[i], li, 0)
			if d == 0 {
				continue // unchanged
			}
			if d == 2 || (dir != 0 && d != dir) {
				good = false
				break
			}
			dir = d
		}
		if !good || dir == 0 || len(inits) != 1 {
			continue
		}
		init := inits[0]
		thePhi := phi
		d := dir
		li.autoInv = append(li.autoInv, func(phiVal func(*ssa.Phi) Term) Term {
			if d > 0 {
				return app(">=", phiVal(thePhi), c.v(init))
			}
			return app("<=", phiVal(thePhi), c.v(init))
		})
	}
}

// stepDir: 0 same as phi, +1 strictly/weakly increasing, -1 decreasing, 2 unknown
func (c *FnCtx) stepDir(phi *ssa.Phi, v ssa.Value, li *LoopInfo, depth int) int {
	if v == phi {
		return 0
	}
	if depth > 6 {
		return 2
	}
	switch x := v.(type) {
	case *ssa.BinOp:
		if !isInteger(x.Type()) {
			return 2
		}
		_, _, bits, _ := intRange(x.Type())
		if bits < 64 {
			return 2
		}
		if x.Op == token.ADD || x.Op == token.SUB {
			if k, ok := constInt(x.Y); ok {
				base := c.stepDir(phi, x.X, li, depth+1)
				if base == 2 {
					return 2
				}
				s := 1
				if (x.Op == token.ADD && k < 0) || (x.Op == token.SUB && k > 0) {
					s = -1
				}
				if k == 0 {
					return base
				}
				if base == 0 || base == s {
					return s
				}
				return 2
			}
		}
	case *ssa.Phi:
		if !li.body[x.Block()] || x.Block() == li.head {
			return 2
		}
		dir := 0
		for _, e := range x.Edges {
			d := c.stepDir(phi, e, li, depth+1)
			if d == 2 {
				return 2
			}
			if d == 0 {
				continue
			}
			if dir != 0 && d != dir {
				return 2
			}
			dir = d
		}
		return dir
	}
	return 2
}

func (c *FnCtx) loopBackEdges(li *LoopInfo) {
	h := li.head
	for i, p := range h.Preds {
		if c.blocks[p] == nil {
			continue
		}
		e := c.predEdge(h, i)
		if !e.back {
			continue
		}
		idx := i
		phiVal := func(phi *ssa.Phi) Term { return c.v(phi.Edges[idx]) }
		env := c.loopEnv(li, phiVal, e.from.out, c.entry)
		saved := c.st
		c.st = e.from.out
		if li.spec != nil {
			for k, inv := range li.spec.Invariants {
				o := c.oblig(fmt.Sprintf("%s/inv#%d/preserved", c.loopPrefix(li), k+1), "inv-preserved", inv.Src, false)
				o.Desc = inv.Text
				o.Tags = inv.Tags
				t, ok1 := c.invClause(inv, env, false)
				g, ok2 := c.invClause(inv, env, true)
				if ok1 && ok2 {
					e.items = append(e.items, Item{true, t, o, g})
				} else {
					c.dropOblig(o)
				}
			}
			if li.spec.Decreases != nil {
				t, _ := c.tr(li.spec.Decreases.E, env)
				o := c.oblig(c.loopPrefix(li)+"/decreases", "decreases", li.spec.Decreases.Src, false)
				o.Desc = li.spec.Decreases.Text
				e.items = append(e.items, Item{true, and(app("<=", "0", li.m0), app("<", t, li.m0)), o, ""})
			}
		}
		if fcomps := c.loopFrameComps(li); len(fcomps) > 0 {
			as, gs := c.frameFormulas(e.from.out, fcomps)
			o := c.oblig(c.loopPrefix(li)+"/frame/preserved", "inv-preserved", c.spec.Src, false)
			o.Desc = "the function's assigns clause is preserved by the loop body"
			for k := range as {
				e.items = append(e.items, Item{true, as[k], o, gs[k]})
			}
		}
		for k, ai := range li.autoInv {
			o := c.oblig(fmt.Sprintf("%s/auto#%d/preserved", c.loopPrefix(li), k+1), "inv-preserved", "", false)
			o.Desc = "inferred monotone-counter invariant"
			e.items = append(e.items, Item{true, ai(phiVal), o, ""})
		}
		c.st = saved
	}
}

// ---------- loop modification pre-scan (static)

func (c *FnCtx) hasLocStatic(v ssa.Value) bool {
	switch x := v.(type) {
	case *ssa.IndexAddr:
		return true
	case *ssa.FieldAddr:
		st := x.X.Type().Underlying().(*types.Pointer).Elem()
		ft := st.Underlying().(*types.Struct).Field(x.Field).Type()
		if c.hasLocStatic(x.X) {
			return true
		}
		return !isStruct(ft)
	case *ssa.Global:
		return true
	}
	return false
}

func (c *FnCtx) rootComps(v ssa.Value, out map[string]bool) {
	switch x := v.(type) {
	case *ssa.IndexAddr:
		switch u := x.X.Type().Underlying().(type) {
		case *types.Slice:
			out[c.elemComp(u.Elem())] = true
		case *types.Pointer:
			if c.hasLocStatic(x.X) {
				c.rootComps(x.X, out)
			} else {
				out[c.elemComp(u.Elem().Underlying().(*types.Array).Elem())] = true
			}
		}
	case *ssa.FieldAddr:
		st := x.X.Type().Underlying().(*types.Pointer).Elem()
		if c.hasLocStatic(x.X) {
			c.rootComps(x.X, out)
		} else {
			out[c.fieldComp(st, x.Field)] = true
		}
	case *ssa.Global:
		out[c.globalComp(x)] = true
	default:
		// generic pointer
		el := v.Type().Underlying().(*types.Pointer).Elem()
		if isStruct(el) {
			c.objectComps(el, out)
		} else if a, ok := el.Underlying().(*types.Array); ok {
			out[c.elemComp(a.Elem())] = true
		} else {
			out[c.cellComp(el)] = true
		}
	}
}

// frameBase: for a store address, the component and the loop-invariant object it goes through.
func (c *FnCtx) frameBase(addr ssa.Value, li *LoopInfo) (comp string, base ssa.Value, ok bool) {
	outside := func(v ssa.Value) bool {
		switch x := v.(type) {
		case *ssa.Parameter, *ssa.FreeVar, *ssa.Const, *ssa.Global:
			return true
		case ssa.Instruction:
			return !li.body[x.Block()]
		}
		return false
	}
	// an object allocated inside the loop did not exist before it: stores into it never touch
	// pre-existing objects (base == nil marks this case)
	inner := func(v ssa.Value) bool {
		switch x := v.(type) {
		case *ssa.Alloc:
			return li.body[x.Block()]
		case *ssa.MakeSlice:
			return li.body[x.Block()]
		case *ssa.Slice:
			if a, ok := x.X.(*ssa.Alloc); ok {
				return li.body[a.Block()]
			}
		}
		return false
	}
	switch x := addr.(type) {
	case *ssa.FieldAddr:
		if c.hasLocStatic(x.X) {
			return "", nil, false
		}
		st := x.X.Type().Underlying().(*types.Pointer).Elem()
		ft := st.Underlying().(*types.Struct).Field(x.Field).Type()
		if isStruct(ft) {
			return "", nil, false
		}
		if inner(x.X) {
			return c.fieldComp(st, x.Field), nil, true
		}
		if !outside(x.X) {
			return "", nil, false
		}
		return c.fieldComp(st, x.Field), x.X, true
	case *ssa.IndexAddr:
		if s, isS := x.X.Type().Underlying().(*types.Slice); isS {
			if inner(x.X) {
				return c.elemComp(s.Elem()), nil, true
			}
			if outside(x.X) {
				return c.elemComp(s.Elem()), x.X, true
			}
		}
		if p, isP := x.X.Type().Underlying().(*types.Pointer); isP {
			if a, isA := p.Elem().Underlying().(*types.Array); isA && inner(x.X) && !c.hasLocStatic(x.X) {
				return c.elemComp(a.Elem()), nil, true
			}
		}
	}
	return "", nil, false
}

func (c *FnCtx) loopModified(li *LoopInfo) {
	li.frameRefs = map[string][]ssa.Value{}
	li.frameBad = map[string]bool{}
	other := map[string]bool{} // components changed by anything other than a direct store
	for b := range li.body {
		for _, ins := range b.Instrs {
			switch x := ins.(type) {
			case *ssa.Store:
				if comp, base, ok := c.frameBase(x.Addr, li); ok {
					if base != nil {
						li.frameRefs[comp] = append(li.frameRefs[comp], base)
					} else if _, has := li.frameRefs[comp]; !has {
						li.frameRefs[comp] = nil
					}
					li.mod[comp] = true
				} else {
					c.rootComps(x.Addr, other)
				}
			case *ssa.Alloc:
				// zero-initialises a fresh object: pre-existing objects are untouched
				el := x.Type().(*types.Pointer).Elem()
				tmp := map[string]bool{}
				if isStruct(el) {
					c.objectComps(el, tmp)
				} else if a, ok := el.Underlying().(*types.Array); ok {
					tmp[c.elemComp(a.Elem())] = true
				} else {
					tmp[c.cellComp(el)] = true
				}
				for comp := range tmp {
					li.mod[comp] = true
					if _, ok := li.frameRefs[comp]; !ok {
						li.frameRefs[comp] = nil
					}
				}
			case *ssa.MakeSlice:
				comp := c.elemComp(x.Type().Underlying().(*types.Slice).Elem())
				li.mod[comp] = true
				if _, ok := li.frameRefs[comp]; !ok {
					li.frameRefs[comp] = nil
				}
			case *ssa.MakeMap:
				h, v, l := c.mapComps(x.Type().Underlying().(*types.Map))
				other[h], other[v], other[l] = true, true, true
			case *ssa.MapUpdate:
				h, v, l := c.mapComps(x.Map.Type().Underlying().(*types.Map))
				other[h], other[v], other[l] = true, true, true
			case *ssa.Convert:
				if isString(x.X.Type()) && isSlice(x.Type()) {
					// []byte(s) / []rune(s): a fresh array only
					comp := c.elemComp(x.Type().Underlying().(*types.Slice).Elem())
					li.mod[comp] = true
					if _, ok := li.frameRefs[comp]; !ok {
						li.frameRefs[comp] = nil
					}
				}
			case *ssa.Send:
				c.chanMods(x.Chan, other)
				c.pointSetMods("send:"+chanVarName(x.Chan), other)
			case *ssa.UnOp:
				if x.Op == token.ARROW {
					c.chanMods(x.X, other)
					c.pointSetMods("recv:"+chanVarName(x.X), other)
				}
			case *ssa.Select:
				for _, st := range x.States {
					c.chanMods(st.Chan, other)
					if st.Dir == types.SendOnly {
						c.pointSetMods("send:"+chanVarName(st.Chan), other)
					} else {
						c.pointSetMods("recv:"+chanVarName(st.Chan), other)
					}
				}
			case *ssa.Call:
				if c.spec != nil && len(c.spec.Sets) > 0 {
					// ghost assignments attached to calls in the loop body
					ci := c.resolveCallee(&x.Call)
					for key, gs := range c.spec.Sets {
						if key == ci.name || strings.HasPrefix(key, ci.name+"#") {
							for _, g := range gs {
								if comp, _, ok := c.localGhost(g.Name); ok {
									other[comp] = true
								}
							}
						}
					}
				}
				// contract calls whose assigns name fields/elements of loop-invariant arguments keep
				// the inferred frame for every other object
				var det []modTarget
				tmp := map[string]bool{}
				c.modDetail = &det
				all := c.callMods(&x.Call, tmp)
				c.modDetail = nil
				if all {
					li.modAll = true
				}
				detailed := map[string]bool{}
				for _, d := range det {
					ok := false
					if d.base != nil && !d.whole {
						switch b := d.base.(type) {
						case *ssa.Parameter, *ssa.FreeVar, *ssa.Global:
							ok = true
						case ssa.Instruction:
							ok = !li.body[b.Block()]
						}
					}
					if ok {
						li.frameRefs[d.comp] = append(li.frameRefs[d.comp], d.base)
						li.mod[d.comp] = true
						detailed[d.comp] = true
					} else {
						other[d.comp] = true
					}
				}
				for comp := range tmp {
					if !detailed[comp] {
						other[comp] = true
					}
				}
			case *ssa.Go:
				if c.spec != nil && len(c.spec.Sets) > 0 {
					c.pointSetMods("go:"+c.resolveCallee(&x.Call).name, other)
				}
			case *ssa.Defer:
				if c.callMods(&x.Call, other) {
					li.modAll = true
				}
			case *ssa.RunDefers:
				for _, d := range c.allDefers() {
					if c.callMods(&d.Call, other) {
						li.modAll = true
					}
				}
			}
		}
	}
	for comp := range other {
		li.mod[comp] = true
		li.frameBad[comp] = true
	}
	if li.modAll {
		for comp := range li.frameRefs {
			li.frameBad[comp] = true
		}
	}
}

func (c *FnCtx) allDefers() []*ssa.Defer {
	var ds []*ssa.Defer
	for _, b := range c.fn.Blocks {
		for _, ins := range b.Instrs {
			if d, ok := ins.(*ssa.Defer); ok {
				ds = append(ds, d)
			}
		}
	}
	return ds
}

func sortStrings(s []string) {
	for i := 1; i < len(s); i++ {
		for j := i; j > 0 && s[j] < s[j-1]; j-- {
			s[j], s[j-1] = s[j-1], s[j]
		}
	}
}

// loopFrame: inferred frame of a loop. A component that the loop changes only through direct
// stores into objects that exist before the loop is unchanged, at the loop head, for every other
// object (sound by construction of the static scan in loopModified).
func (c *FnCtx) loopFrame(li *LoopInfo) {
	h := li.head
	var entries []*EdgeVC
	for i, p := range h.Preds {
		if c.blocks[p] == nil {
			continue
		}
		e := c.predEdge(h, i)
		if !e.back {
			entries = append(entries, e)
		}
	}
	if len(entries) == 0 {
		return
	}
	var comps []string
	for comp := range li.frameRefs {
		if !li.frameBad[comp] {
			comps = append(comps, comp)
		}
	}
	sortStrings(comps)
	for _, comp := range comps {
		pre := c.get(entries[0].from.out, comp)
		same := true
		for _, e := range entries[1:] {
			if c.get(e.from.out, comp) != pre {
				same = false
			}
		}
		if !same {
			continue
		}
		cur := c.get(c.st, comp)
		if pre == cur {
			continue
		}
		var excl []Term
		seen := map[string]bool{}
		for _, v := range li.frameRefs[comp] {
			t := c.v(v)
			if isSlice(v.Type()) {
				t = app("s-ref", t)
			}
			if !seen[t] {
				seen[t] = true
				excl = append(excl, not(eq("q$r", t)))
			}
		}
		// only objects that existed when the loop was entered are framed
		excl = append(excl, app("<=", "q$r", c.get(entries[0].from.out, "$alloc")))
		sameAlloc := true
		for _, e := range entries[1:] {
			if c.get(e.from.out, "$alloc") != c.get(entries[0].from.out, "$alloc") {
				sameAlloc = false
			}
		}
		if !sameAlloc {
			continue
		}
		c.assume(fmt.Sprintf("(forall ((q$r Int)) (! (=> %s (= (select %s q$r) (select %s q$r))) :pattern ((select %s q$r))))", and(excl...), cur, pre, cur))
	}
}

// pointSetMods: ghost variables assigned by "after <key> set ..." clauses.
func (c *FnCtx) pointSetMods(key string, out map[string]bool) {
	if c.spec == nil {
		return
	}
	for _, g := range c.spec.Sets[key] {
		if comp, _, ok := c.localGhost(g.Name); ok {
			out[comp] = true
		}
	}
}
