package main

import (
	"encoding/json"
	"flag"
	"fmt"
	"os"
	"path/filepath"
	"sort"
	"strconv"
	"strings"
	"sync"
	"time"
)

type PropConfig struct {
	ID          string   `json:"id"`
	Title       string   `json:"title"`
	Functions   []string `json:"functions"`    // names, or "*" for every function of the package
	ExcludeFile []string `json:"exclude_files"` // file name prefixes excluded with "*"
	Kinds       []string `json:"kinds"`        // obligation kinds that belong to the property ("*" = all)
	Lemmas      []string `json:"lemmas"`
	Assumptions []string `json:"assumptions"`
	Bounded     []BoundedCheck `json:"bounded"`
	Harness     []Harness `json:"harness"`
	TopLevel    []string `json:"top_level"` // functions whose disappearance makes the property undecidable
	// the property says "never fails / never crashes" for these functions: a NEW panic site in one of them
	// that does not discharge is reported even without a counter-model
	StrictSafety bool `json:"strict_safety"`
}

type BoundedCheck struct {
	Name  string `json:"name"`
	Test  string `json:"test"`  // go test name regexp (in-package test injected by overlay)
	File  string `json:"file"`  // test source under /verif/bounded
	Bound string `json:"bound"` // human-readable bound
	Tier  string `json:"tier"`  // "" = both, "thorough" = thorough only
}

var safetyKinds = map[string]bool{"index": true, "slice": true, "makeslice": true, "div": true, "typeassert": true, "mapnil": true, "nil": true, "allocbound": true, "overflow": true}

func loadProp(verif, id string) (*PropConfig, error) {
	b, err := os.ReadFile(filepath.Join(verif, "props", id+".json"))
	if err != nil {
		return nil, err
	}
	var p PropConfig
	if err := json.Unmarshal(b, &p); err != nil {
		return nil, fmt.Errorf("props/%s.json: %v", id, err)
	}
	return &p, nil
}

type Baseline struct {
	Claimed    map[string]bool
	NotClaimed map[string]bool
	Unreach    map[string]bool // reachability probes that are (legitimately) unreachable on the unchanged tree
	All        bool // rebaselining: give every obligation the full treatment
}

func loadBaseline(path string) (*Baseline, error) {
	bl := &Baseline{Claimed: map[string]bool{}, NotClaimed: map[string]bool{}, Unreach: map[string]bool{}}
	b, err := os.ReadFile(path)
	if err != nil {
		return bl, err
	}
	for _, l := range strings.Split(string(b), "\n") {
		l = strings.TrimSpace(l)
		if l == "" || strings.HasPrefix(l, "#") {
			continue
		}
		if strings.HasPrefix(l, "~") {
			bl.Unreach[strings.TrimSpace(l[1:])] = true
		} else if strings.HasPrefix(l, "!") {
			bl.NotClaimed[strings.TrimSpace(l[1:])] = true
		} else {
			bl.Claimed[l] = true
		}
	}
	return bl, nil
}

type Finding struct {
	Fixed    bool
	Property string
	Oblig    string
	Text     string
}

func loadFindings(path string) []Finding {
	var fs []Finding
	b, err := os.ReadFile(path)
	if err != nil {
		return nil
	}
	for _, l := range strings.Split(string(b), "\n") {
		l = strings.TrimSpace(l)
		if l == "" || strings.HasPrefix(l, "#") {
			continue
		}
		f := Finding{Text: l}
		if strings.HasPrefix(l, "fixed:") {
			f.Fixed = true
		} else if !strings.HasPrefix(l, "finding:") {
			continue
		}
		for _, w := range strings.Fields(l) {
			if strings.HasPrefix(w, "property=") {
				f.Property = strings.TrimPrefix(w, "property=")
			}
			if strings.HasPrefix(w, "obligation=") {
				f.Oblig = strings.TrimPrefix(w, "obligation=")
			}
		}
		fs = append(fs, f)
	}
	return fs
}

func (g *Gen) fileOfFunc(name string) string {
	fn := g.funcs[baseFuncName(name)]
	if fn == nil {
		return ""
	}
	p := g.fset.Position(fn.Pos())
	return filepath.Base(p.Filename)
}

func baseFuncName(name string) string {
	if i := strings.Index(name, "@"); i >= 0 {
		return name[:i]
	}
	return name
}

func (g *Gen) propFunctions(p *PropConfig) []string {
	var out []string
	seen := map[string]bool{}
	for _, f := range p.Functions {
		if f == "*" {
			for _, n := range g.sortedFuncNames() {
				file := g.fileOfFunc(n)
				skip := false
				for _, ex := range p.ExcludeFile {
					if strings.HasPrefix(file, ex) {
						skip = true
					}
				}
				if strings.HasSuffix(file, "_test.go") {
					skip = true
				}
				if !skip && !seen[n] {
					seen[n] = true
					out = append(out, n)
				}
			}
			continue
		}
		if !seen[f] {
			seen[f] = true
			out = append(out, f)
		}
	}
	return out
}

func (p *PropConfig) wantsKind(kind string, trustedPre bool) bool {
	for _, k := range p.Kinds {
		if k == "*" || k == kind {
			return true
		}
		if k == "safety" && (safetyKinds[kind] || (kind == "pre" && trustedPre)) {
			return true
		}
		if k == "functional" && !safetyKinds[kind] {
			return true
		}
	}
	return false
}

type CheckOutcome struct {
	Results    []*OblResult
	FuncErrs   map[string]string
	Warnings   map[string][]string
	Trusted    map[string]bool
	Uncontr    map[string]bool
	Missing    []string
	Funcs      []string
	SolverSecs float64
	MaxSecs    float64
	BySolver   map[string]int
	Joint      int
	SMTBytes   int
}


// checkFunction verifies one function for a property and appends results.
func (g *Gen) checkFunction(name string, p *PropConfig, bl *Baseline, tier string, work string, out *CheckOutcome, mu *sync.Mutex) {
	// per-obligation limit: generous, because a claimed obligation that runs out of time on a slow
	// machine would be a false alarm (the slowest one today needs about 16 s; passing runs do not wait)
	timeout := 60 * time.Second
	if tier == "thorough" {
		timeout = 120 * time.Second
	}
	fn := g.funcs[baseFuncName(name)]
	if fn == nil {
		mu.Lock()
		out.FuncErrs[name] = "function not found in /repo's current tree"
		mu.Unlock()
		return
	}
	c := g.newCtx(fn)
	if name != baseFuncName(name) {
		c.name = name
		c.spec = g.specs.Funcs[name]
	}
	var err error
	func() {
		defer func() {
			if r := recover(); r != nil {
				if s, ok := r.(unsupported); ok {
					err = fmt.Errorf("%s", string(s))
					return
				}
				panic(r)
			}
		}()
		err = c.translate()
		if err == nil {
			_ = c.Emit(map[*Oblig]bool{})
		}
	}()
	mu.Lock()
	if len(c.warnings) > 0 {
		out.Warnings[name] = c.warnings
	}
	mu.Unlock()
	if err != nil {
		mu.Lock()
		out.FuncErrs[name] = err.Error()
		mu.Unlock()
		return
	}
	dir := filepath.Join(work, sanitize(name))
	var claimed, others, covers []*Oblig
	for _, o := range c.obls {
		if o.Cover {
			covers = append(covers, o)
			continue
		}
		trustedPre := o.Kind == "pre" && o.Safety
		if !p.wantsKind(o.Kind, trustedPre) {
			continue
		}
		if len(o.Tags) > 0 {
			mine := false
			for _, t := range o.Tags {
				if t == p.ID {
					mine = true
				}
			}
			if !mine {
				continue // belongs to another property's claim
			}
		}
		if bl.Claimed[o.ID] || bl.All {
			claimed = append(claimed, o)
		} else {
			others = append(others, o)
		}
	}
	results := map[*Oblig]*OblResult{}
	var rmu sync.Mutex
	mk := func(o *Oblig) *OblResult {
		r := &OblResult{Func: name, ID: o.ID, Kind: o.Kind, Safety: o.Safety, Cover: o.Cover, Src: o.Src, Desc: o.Desc, Points: o.N, Tags: o.Tags, Peer: o.Peer}
		rmu.Lock()
		results[o] = r
		rmu.Unlock()
		return r
	}
	run := func(solver, file string, t time.Duration) SolverRes {
		solverSem <- struct{}{}
		defer func() { <-solverSem }()
		return runSolver(solver, file, t)
	}
	emit := func(act map[*Oblig]bool) string {
		rmu.Lock()
		defer rmu.Unlock()
		return c.Emit(act) + "(check-sat)\n"
	}
	base := emit(map[*Oblig]bool{})
	jointDone := false
	if len(claimed) > 1 {
		act := map[*Oblig]bool{}
		for _, o := range claimed {
			act[o] = true
		}
		f := writeQuery(dir, "joint", emit(act))
		jt := 4 * time.Second
		if tier == "thorough" {
			jt = 15 * time.Second
		}
		r := race(f, jt, []string{"z3-new", "z3-new-noext"})
		if r.Answer == "unsat" {
			jointDone = true
			for _, o := range claimed {
				or := mk(o)
				or.Answer, or.Solver, or.Secs, or.Joint = "unsat", r.Solver, r.Secs/float64(len(claimed)), true
			}
		}
		os.Remove(f)
	}
	var wg sync.WaitGroup
	if !jointDone {
		for _, o := range claimed {
			o := o
			wg.Add(1)
			go func() {
				defer wg.Done()
				f := writeQuery(dir, o.ID, emit(map[*Oblig]bool{o: true}))
				best := race(f, timeout, solverOrder)
				if tier == "thorough" && best.Answer == "unsat" {
					// cross-check with the other solvers: a definite disagreement is a tool error
					for _, s := range []string{"z3-new", "cvc5", "z3"} {
						if s == best.Solver {
							continue
						}
						r := run(s, f, timeout/4)
						if r.Answer == "sat" {
							best = SolverRes{Answer: "conflict", Solver: best.Solver + "/" + s, Output: "solvers disagree"}
						}
					}
				}
				or := mk(o)
				or.Answer, or.Solver, or.Secs = best.Answer, best.Solver, best.Secs
				if best.Answer != "unsat" {
					or.File = f
					or.Output = best.Output
				} else {
					os.Remove(f)
				}
			}()
		}
	}
	// has this function lost obligations that were proved on the unchanged tree? then its new
	// obligations may be their replacements and get the full treatment (see report: lost safety bounds)
	present := map[string]bool{}
	for _, o := range c.obls {
		present[o.ID] = true
	}
	lostSome := false
	for id := range bl.Claimed {
		if strings.HasPrefix(id, name+"/") && !present[id] {
			lostSome = true
		}
	}
	// obligations outside the baseline: one fast attempt, only a definite model matters
	for _, o := range others {
		o := o
		if tier != "thorough" && bl.NotClaimed[o.ID] {
			// known not to discharge on the unchanged tree and never claimed: its answer cannot
			// change the outcome, so the quick tier does not spend solver time on it
			or := mk(o)
			or.Answer, or.Solver = "skipped", ""
			continue
		}
		wg.Add(1)
		go func() {
			defer wg.Done()
			f := writeQuery(dir, o.ID, emit(map[*Oblig]bool{o: true}))
			t := 3 * time.Second
			r := run("z3-new", f, t)
			if r.Answer != "unsat" && r.Answer != "sat" && (lostSome || o.Peer || (p.StrictSafety && o.Safety)) && !bl.NotClaimed[o.ID] && tier != "thorough" {
				r = race(f, timeout/2, solverOrder)
			}
			if r.Answer != "unsat" && r.Answer != "sat" && tier == "thorough" {
				// deeper attempt; obligations already known never to discharge get a shorter one
				t2 := timeout
				if bl.NotClaimed[o.ID] {
					t2 = 20 * time.Second
				}
				r2, _ := decide(f, t2, false)
				r = r2
			}
			or := mk(o)
			or.Answer, or.Solver, or.Secs = r.Answer, r.Solver, r.Secs
			if r.Answer == "sat" {
				or.File = f
				or.Output = r.Output
			} else {
				os.Remove(f)
			}
		}()
	}
	// vacuity probes
	for _, o := range covers {
		o := o
		if tier != "thorough" && c.spec == nil {
			continue // no contract of ours can be contradictory here; thorough probes every function
		}
		wg.Add(1)
		go func() {
			defer wg.Done()
			f := writeQuery(dir, o.ID, emit(map[*Oblig]bool{o: true}))
			r := run("z3-new", f, 3*time.Second)
			if r.Answer == "unsat" {
				// confirm with a second solver before raising a tool error
				r2 := run("cvc5", f, 3*time.Second)
				if r2.Answer == "sat" {
					r.Answer = "conflict"
				}
			}
			or := mk(o)
			or.Answer, or.Solver, or.Secs = r.Answer, r.Solver, r.Secs
			if r.Answer == "unsat" {
				or.File = f
			} else {
				os.Remove(f)
			}
		}()
	}
	wg.Wait()
	os.Remove(dir)
	mu.Lock()
	defer mu.Unlock()
	out.SMTBytes += len(base)
	for k := range c.trusted {
		out.Trusted[k] = true
	}
	for k := range c.uncontr {
		out.Uncontr[k] = true
	}
	for _, o := range c.obls {
		if r, ok := results[o]; ok {
			out.Results = append(out.Results, r)
			out.SolverSecs += r.Secs
			if r.Secs > out.MaxSecs {
				out.MaxSecs = r.Secs
			}
			if r.Answer == "unsat" && !r.Cover {
				out.BySolver[r.Solver]++
				if r.Joint {
					out.Joint++
				}
			}
		}
	}
}

const slowClaimLimit = 20.0 // seconds

func cmdCheck(args []string) {
	fs := flag.NewFlagSet("check", flag.ExitOnError)
	tier := fs.String("tier", env("VERIF_TIER", "quick"), "quick|thorough")
	rebase := fs.Bool("rebaseline", false, "write the baseline from this run (development only)")
	fs.Parse(args)
	if fs.NArg() != 1 {
		fmt.Println("usage: govc check [-tier quick|thorough] <property-id>")
		os.Exit(2)
	}
	id := fs.Arg(0)
	verif := env("VERIF_DIR", "/verif")
	repo := env("REPO", "/repo")
	seed, _ := strconv.Atoi(env("VERIF_SEED", "0"))
	start := time.Now()
	p, err := loadProp(verif, id)
	if err != nil {
		fmt.Println("tool error:", err)
		os.Exit(2)
	}
	g, err := loadAll(repo)
	if err != nil {
		fmt.Println("tool error: loading", repo, ":", err)
		// a tree that does not build cannot be decided
		os.Exit(2)
	}
	blPath := filepath.Join(verif, "baselines", id+".txt")
	bl, blErr := loadBaseline(blPath)
	if blErr != nil && !*rebase {
		fmt.Println("tool error: no baseline:", blErr)
		os.Exit(2)
	}
	if *rebase {
		bl.All = true
	}
	work := filepath.Join(env("GOVC_WORK", filepath.Join(os.TempDir(), "govc-work")), id+"-"+strconv.Itoa(os.Getpid()))
	defer os.RemoveAll(work)
	out := &CheckOutcome{FuncErrs: map[string]string{}, Warnings: map[string][]string{}, Trusted: map[string]bool{}, Uncontr: map[string]bool{}, BySolver: map[string]int{}}
	funcs := g.propFunctions(p)
	out.Funcs = funcs
	var mu sync.Mutex
	var tasks []func()
	for _, f := range funcs {
		f := f
		tasks = append(tasks, func() { g.checkFunction(f, p, bl, *tier, work, out, &mu) })
	}
	parallel(12, tasks)
	lem := g.checkLemmas(p, bl, *tier, work, out)
	_ = lem
	sort.Slice(out.Results, func(i, j int) bool { return out.Results[i].ID < out.Results[j].ID })

	if *rebase {
		var lines []string
		lines = append(lines, "# baseline for "+id+": obligations discharged on the unchanged tree (written by `govc check -rebaseline`)")
		for _, r := range out.Results {
			if r.Cover {
				if r.Answer == "unsat" {
					lines = append(lines, "~ "+r.ID)
				}
				continue
			}
			// claim only what discharges well under the quick timeout: an obligation that needed more than
			// a third of it here (under the load of a rebaseline) could time out on a slower machine and
			// would then be a false alarm - it is listed as not claimed instead
			slow := r.Secs > slowClaimLimit
			if r.Answer == "unsat" && !slow {
				lines = append(lines, r.ID)
			} else {
				lines = append(lines, "! "+r.ID)
				if slow && r.Answer == "unsat" {
					fmt.Printf("not claimed (discharged, but only after %.0f s by %s): %s\n", r.Secs, r.Solver, r.ID)
				}
			}
		}
		os.MkdirAll(filepath.Dir(blPath), 0o755)
		os.WriteFile(blPath, []byte(strings.Join(lines, "\n")+"\n"), 0o644)
		bl, _ = loadBaseline(blPath)
		fmt.Printf("baseline written: %d claimed, %d not claimed\n", len(bl.Claimed), len(bl.NotClaimed))
		for f, e := range out.FuncErrs {
			fmt.Printf("WARNING: %s could not be translated and contributes nothing to this baseline: %s\n", f, e)
		}
	}
	code := report(g, p, bl, out, *tier, seed, verif, repo, start)
	os.RemoveAll(work)
	os.Exit(code)
}
