package main

import (
	"sort"
	"go/ast"
	"fmt"
	"go/token"
	"go/types"
	"strings"

	"golang.org/x/tools/go/ssa"
)

type target struct {
	comp string
	ref  Term // "" = whole component
}

func ifaceMethodName(g *Gen, cc *ssa.CallCommon) string {
	t := cc.Value.Type()
	name := ""
	if n, ok := t.(*types.Named); ok {
		name = n.Obj().Name()
		if n.Obj().Pkg() != nil && n.Obj().Pkg() != g.tpkg {
			name = n.Obj().Pkg().Name() + "." + name
		}
	} else {
		name = "iface"
	}
	return name + "." + cc.Method.Name()
}

type calleeInfo struct {
	name     string
	sig      *types.Signature
	fn       *ssa.Function // may be nil
	args     []ssa.Value   // receiver first
	bindings []ssa.Value
	external bool
	pkgName  string
	builtin  string
}

func (c *FnCtx) resolveCallee(cc *ssa.CallCommon) *calleeInfo {
	ci := &calleeInfo{}
	if cc.IsInvoke() {
		ci.name = ifaceMethodName(c.g, cc)
		ci.sig = cc.Method.Type().(*types.Signature)
		ci.args = append([]ssa.Value{cc.Value}, cc.Args...)
		ci.external = cc.Method.Pkg() != c.g.tpkg
		if cc.Method.Pkg() != nil {
			ci.pkgName = cc.Method.Pkg().Name()
		}
		return ci
	}
	if b, ok := cc.Value.(*ssa.Builtin); ok {
		ci.builtin = b.Name()
		ci.args = cc.Args
		return ci
	}
	var fn *ssa.Function
	switch v := cc.Value.(type) {
	case *ssa.Function:
		fn = v
	case *ssa.MakeClosure:
		fn = v.Fn.(*ssa.Function)
		ci.bindings = v.Bindings
	}
	ci.args = cc.Args
	ci.sig = cc.Signature()
	if fn != nil {
		ci.fn = fn
		ci.name = c.g.fnName(fn)
		ci.sig = fn.Signature
		pk := fn.Pkg
		if pk == nil && fn.Parent() != nil {
			pk = fn.Parent().Pkg
		}
		if pk != nil {
			ci.external = pk != c.g.pkg
			ci.pkgName = pk.Pkg.Name()
		} else if fn.Object() != nil && fn.Object().Pkg() != nil {
			ci.external = fn.Object().Pkg() != c.g.tpkg
			ci.pkgName = fn.Object().Pkg().Name()
		} else {
			ci.external = true
		}
	} else {
		ci.name = "dynamic:" + cc.Value.Name()
		// a call through a named local / captured / parameter func variable: addressed by that name
		switch cc.Value.(type) {
		case *ssa.Parameter, *ssa.FreeVar, *ssa.UnOp:
			if n := chanVarName(cc.Value); n != "" {
				ci.name = "dynamic:" + n
			}
		}
		// a call through a value of a named function type of another package (context.CancelFunc ...):
		// addressed in the specs by the type's name
		if n, ok := cc.Value.Type().(*types.Named); ok && n.Obj().Pkg() != nil && n.Obj().Pkg() != c.g.tpkg {
			ci.name = n.Obj().Pkg().Name() + "." + n.Obj().Name()
			ci.external = true
			ci.pkgName = n.Obj().Pkg().Name()
		}
		// a call through a package-level func variable declared effect-free ("purevar")
		if u, ok := cc.Value.(*ssa.UnOp); ok && u.Op == token.MUL {
			if gl, ok := u.X.(*ssa.Global); ok && c.g.specs.PureVars[gl.Name()] {
				ci.name = "var:" + gl.Name()
				ci.external = true
				ci.pkgName = "$purevar"
			}
		}
	}
	return ci
}

func (c *FnCtx) calleeEnv(ci *calleeInfo, args []Term, results []Term, st, old *State) *Env {
	env := &Env{vars: map[string]TV{}, st: st, oldSt: old}
	sig := ci.sig
	k := 0
	if sig.Recv() != nil && len(args) == sig.Params().Len()+1 {
		tv := TV{T: args[0], Ty: sig.Recv().Type()}
		if ci.fn == nil && len(ci.args) > 0 {
			tv.Ty = ci.args[0].Type()
		}
		env.vars["recv"] = tv
		if n := sig.Recv().Name(); n != "" && n != "_" {
			env.vars[n] = tv
		}
		k = 1
	} else if ci.fn == nil && len(args) == sig.Params().Len()+1 {
		// invoke: receiver is the interface value
		env.vars["recv"] = TV{T: args[0], Ty: ci.args[0].Type()}
		k = 1
	}
	for i := 0; i < sig.Params().Len() && k+i < len(args); i++ {
		p := sig.Params().At(i)
		tv := TV{T: args[k+i], Ty: p.Type()}
		env.vars[fmt.Sprintf("p%d", i)] = tv
		if n := p.Name(); n != "" && n != "_" {
			env.vars[n] = tv
		}
	}
	if ci.fn != nil {
		for i, fv := range ci.fn.FreeVars {
			if i < len(ci.bindings) {
				b := c.v(ci.bindings[i])
				el := fv.Type().(*types.Pointer).Elem()
				if isStruct(el) {
					env.vars[fv.Name()] = TV{T: b, Ty: fv.Type()}
				} else if _, isArr := el.Underlying().(*types.Array); isArr {
					env.vars[fv.Name()] = TV{T: b, Ty: fv.Type()}
				} else {
					env.vars[fv.Name()] = TV{Ty: el, Loc: &Loc{Kind: "cell", Comp: c.cellComp(el), Ref: b, T: el, Root: el}}
				}
			}
		}
	}
	res := sig.Results()
	for i := 0; i < res.Len() && i < len(results); i++ {
		tv := TV{T: results[i], Ty: res.At(i).Type()}
		env.vars[fmt.Sprintf("r%d", i)] = tv
		if n := res.At(i).Name(); n != "" && n != "_" {
			if _, clash := env.vars[n]; !clash {
				env.vars[n] = tv
			}
		}
		if i == res.Len()-1 && res.At(i).Type().String() == "error" {
			if _, clash := env.vars["err"]; !clash {
				env.vars["err"] = tv
			}
		}
	}
	return env
}

func ghostNames(spec *FuncSpec) map[string]bool {
	// names a caller cannot interpret: the callee's logical variables and its internal call results
	m := map[string]bool{"result_of": true, "after": true}
	for _, g := range spec.Ghost {
		m[g.Name] = true
	}
	for _, g := range spec.GhostVars {
		m[g.Name] = true
	}
	return m
}

// assignTargets evaluates an assigns clause to heap targets.
func (c *FnCtx) assignTargets(spec *FuncSpec, env *Env) (ts []target, err error) {
	defer func() {
		if r := recover(); r != nil {
			if s, ok := r.(specErr); ok {
				err = fmt.Errorf("%s: assigns: %s", spec.Src, string(s))
				return
			}
			panic(r)
		}
	}()
	for _, cl := range spec.Assigns {
		ts = append(ts, c.assignTarget(cl.E, env)...)
	}
	return ts, nil
}

func (c *FnCtx) assignTarget(e *Expr, env *Env) []target {
	switch e.Op {
	case "id":
		if comp, _, ok := c.ghostGlobal(e.Name); ok {
			return []target{{comp, ""}}
		}
		if o := c.g.tpkg.Scope().Lookup(e.Name); o != nil {
			if v, ok := o.(*types.Var); ok {
				return []target{{c.comp("G$"+sanitize(e.Name), c.sortOf(v.Type())), ""}}
			}
		}
	case "field":
		b, bt := c.tr(e.Args[0], env)
		if st, ok := derefStruct(bt); ok {
			k := fieldIndex(st, e.Name)
			if k < 0 {
				c.specFail("no field %s", e.Name)
			}
			ft := st.Underlying().(*types.Struct).Field(k).Type()
			if isStruct(ft) {
				out := map[string]bool{}
				c.objectComps(ft, out)
				var ts []target
				for comp := range out {
					ts = append(ts, target{comp, ""}) // conservative: whole components
				}
				return ts
			}
			return []target{{c.fieldComp(st, k), b}}
		}
	case "un":
		if e.Name == "*" {
			a, at := c.tr(e.Args[0], env)
			if p, ok := at.Underlying().(*types.Pointer); ok {
				if isStruct(p.Elem()) {
					out := map[string]bool{}
					c.objectComps(p.Elem(), out)
					var ts []target
					for comp := range out {
						ts = append(ts, target{comp, a})
					}
					return ts
				}
				return []target{{c.cellComp(p.Elem()), a}}
			}
		}
	case "call":
		switch e.Name {
		case "elems":
			a, at := c.tr(e.Args[0], env)
			if s, ok := at.Underlying().(*types.Slice); ok {
				return []target{{c.elemComp(s.Elem()), app("s-ref", a)}}
			}
		case "elemsof":
			// elemsof("byte"): any byte array
			if len(e.Args) == 1 && e.Args[0].Op == "str" {
				ty, err := c.g.parseSpecType(e.Args[0].Name)
				if err != nil {
					c.specFail("%v", err)
				}
				return []target{{c.elemComp(ty), ""}}
			}
		case "fields":
			a, at := c.tr(e.Args[0], env)
			if st, ok := derefStruct(at); ok {
				out := map[string]bool{}
				c.objectComps(st, out)
				var ts []target
				for comp := range out {
					ts = append(ts, target{comp, a})
				}
				return ts
			}
		case "mapof":
			_, at := c.tr(e.Args[0], env)
			if m, ok := at.Underlying().(*types.Map); ok {
				h, v, l := c.mapComps(m)
				return []target{{h, ""}, {v, ""}, {l, ""}}
			}
		}
	}
	c.specFail("unsupported assigns target %s", e)
	return nil
}

// argTargets: the memory directly pointed to by the call's arguments (shallow): fields of a struct
// passed by pointer (also when boxed in an interface in this function), elements of a slice, the
// cell of a pointer to a basic value.
func (c *FnCtx) argTargets(ci *calleeInfo) []target {
	var ts []target
	for _, a := range ci.args {
		v := a
		if mi, ok := a.(*ssa.MakeInterface); ok {
			v = mi.X
		}
		if _, isLoc := c.locs[v]; isLoc {
			continue // handled by copy-in/copy-out
		}
		switch u := v.Type().Underlying().(type) {
		case *types.Pointer:
			ref := c.v(v)
			if isStruct(u.Elem()) {
				out := map[string]bool{}
				c.objectCompsRef(u.Elem(), ref, &ts)
				_ = out
			} else if arr, ok := u.Elem().Underlying().(*types.Array); ok {
				ts = append(ts, target{c.elemComp(arr.Elem()), ref})
			} else {
				ts = append(ts, target{c.cellComp(u.Elem()), ref})
			}
		case *types.Slice:
			ts = append(ts, target{c.elemComp(u.Elem()), app("s-ref", c.v(v))})
		}
	}
	return ts
}

func (c *FnCtx) objectCompsRef(t types.Type, ref Term, out *[]target) {
	s := t.Underlying().(*types.Struct)
	for i := 0; i < s.NumFields(); i++ {
		ft := s.Field(i).Type()
		if isStruct(ft) {
			c.objectCompsRef(ft, app("sub", ref, num(int64(i))), out)
		} else {
			*out = append(*out, target{c.fieldComp(t, i), ref})
		}
	}
}

func (c *FnCtx) havocTargets(ts []target) {
	done := map[string]bool{}
	for _, t := range ts {
		if t.ref == "" {
			if !done[t.comp] {
				done[t.comp] = true
				c.set(t.comp, c.freshComp(t.comp))
			}
		}
	}
	for _, t := range ts {
		if t.ref == "" || done[t.comp] {
			continue
		}
		old := c.get(c.st, t.comp)
		srt := c.compSort[t.comp]
		inner := strings.TrimSuffix(strings.TrimPrefix(srt, "(Array Int "), ")")
		fv := c.freshConst("hv", inner)
		n := c.freshComp(t.comp)
		c.assume(eq(n, app("store", old, t.ref, fv)))
		c.set(t.comp, n)
	}
}

// callMods: static over-approximation of components a call may change. Returns true for "everything".
func (c *FnCtx) callMods(cc *ssa.CallCommon, out map[string]bool) bool {
	ci := c.resolveCallee(cc)
	if ci.builtin != "" {
		switch ci.builtin {
		case "append", "copy":
			if s, ok := cc.Args[0].Type().Underlying().(*types.Slice); ok {
				out[c.elemComp(s.Elem())] = true
			}
		case "delete":
			if m, ok := cc.Args[0].Type().Underlying().(*types.Map); ok {
				h, v, l := c.mapComps(m)
				out[h], out[v], out[l] = true, true, true
			}
		case "clear":
			return true
		}
		return false
	}
	for _, a := range ci.args {
		if c.hasLocStatic(a) {
			c.rootComps(a, out)
			if p, ok := a.Type().Underlying().(*types.Pointer); ok && !isStruct(p.Elem()) {
				if _, isArr := p.Elem().Underlying().(*types.Array); !isArr {
					out[c.cellComp(p.Elem())] = true
				}
			}
		}
	}
	spec := c.g.specs.Funcs[ci.name]
	if c.isAtomicOrSync(ci) && spec == nil {
		return false
	}
	if spec == nil {
		if ci.external && c.g.specs.PurePkgs[ci.pkgName] {
			return false
		}
		if !ci.external && c.g.pure[ci.name] {
			return false
		}
		return true
	}
	if !spec.HasAssigns || spec.AssignsAll {
		return true
	}
	if spec.ArgsOnly {
		for _, a := range ci.args {
			v := a
			if mi, ok := a.(*ssa.MakeInterface); ok {
				v = mi.X
			}
			switch u := v.Type().Underlying().(type) {
			case *types.Pointer:
				if isStruct(u.Elem()) {
					c.objectComps(u.Elem(), out)
				} else if arr, ok := u.Elem().Underlying().(*types.Array); ok {
					out[c.elemComp(arr.Elem())] = true
				} else {
					out[c.cellComp(u.Elem())] = true
				}
			case *types.Slice:
				out[c.elemComp(u.Elem())] = true
			}
		}
	}
	// dry translation of the assigns clause
	env := &Env{vars: map[string]TV{}, st: &State{m: map[string]Term{}, havoc: true}}
	dummy := make([]Term, len(ci.args))
	for i := range dummy {
		dummy[i] = fmt.Sprintf("ARG$%d", i)
	}
	var ts []target
	var err error
	c.dryRun(func() {
		env2 := c.calleeEnv(ci, dummy, nil, env.st, nil)
		ts, err = c.assignTargets(spec, env2)
	})
	if err != nil {
		return true
	}
	for _, t := range ts {
		out[t.comp] = true
		if c.modDetail != nil {
			idx := -1
			for i := range dummy {
				if t.ref == dummy[i] {
					idx = i
				}
			}
			var base ssa.Value
			if idx >= 0 {
				base = ci.args[idx]
			}
			*c.modDetail = append(*c.modDetail, modTarget{t.comp, base, t.ref == ""})
		}
	}
	return false
}

// modTarget: one assigns target of a call inside a loop; base != nil when the target is a field of
// (or the elements of) one of the call's arguments.
type modTarget struct {
	comp  string
	base  ssa.Value
	whole bool
}

func (c *FnCtx) isAtomicOrSync(ci *calleeInfo) bool {
	return ci.external && (ci.pkgName == "atomic" || (ci.pkgName == "sync" && !strings.Contains(ci.name, "Once")))
}

// ---------- the call itself

func (c *FnCtx) argTerms(ci *calleeInfo) ([]Term, []*Loc) {
	var ts []Term
	var ls []*Loc
	for _, a := range ci.args {
		if l, ok := c.locs[a]; ok {
			ts = append(ts, c.addrOfLoc(l))
			ls = append(ls, l)
			continue
		}
		if g, ok := a.(*ssa.Global); ok {
			l := &Loc{Kind: "global", Comp: c.globalComp(g), T: g.Type().(*types.Pointer).Elem()}
			ts = append(ts, c.v(a))
			ls = append(ls, l)
			continue
		}
		ts = append(ts, c.v(a))
		ls = append(ls, nil)
	}
	return ts, ls
}

func (c *FnCtx) resultTypes(sig *types.Signature) []types.Type {
	var ts []types.Type
	for i := 0; i < sig.Results().Len(); i++ {
		ts = append(ts, sig.Results().At(i).Type())
	}
	return ts
}

func (c *FnCtx) setResults(val ssa.Value, rs []Term) {
	if val == nil {
		return
	}
	switch len(rs) {
	case 0:
	case 1:
		c.def(val, rs[0])
	default:
		c.tuples[val] = rs
	}
}

func (c *FnCtx) call(ins ssa.Instruction, cc *ssa.CallCommon, val ssa.Value) {
	ci := c.resolveCallee(cc)
	if ci.builtin != "" {
		c.builtin(ci.builtin, cc, val, ins.Pos())
		return
	}
	pos := ins.Pos()
	if cc.IsInvoke() {
		recv := c.v(cc.Value)
		if !c.nonNilValue(cc.Value) {
			txt := c.g.exprTextAt(pos, "call")
			if txt == "" {
				txt = stableName(cc.Value) + "." + cc.Method.Name()
			}
			o := c.oblig(fmt.Sprintf("%s/nil:%s", c.name, txt), "nil", c.g.posStr(pos), true)
			c.assert(o, not(eq(recv, "0")))
		}
	}
	args, locs := c.argTerms(ci)
	// copy-in for escaping locations of non-struct type
	for i, l := range locs {
		if l == nil {
			continue
		}
		if !isStruct(l.T) {
			if _, isArr := l.T.Underlying().(*types.Array); !isArr {
				comp := c.cellComp(l.T)
				old := c.get(c.st, comp)
				n := c.freshComp(comp)
				c.assume(eq(n, app("store", old, args[i], c.loadLoc(l, c.st))))
				c.set(comp, n)
			}
		}
	}
	if c.spec != nil {
		// "before callee assert ..." applies at every call of callee; "before callee#k assert ..." only at its k-th call site
		hs := append([]*Clause{}, c.spec.Hints[ci.name]...)
		nGeneric := len(hs)
		siteNo := len(c.callRes[ci.name])
		hs = append(hs, c.spec.Hints[fmt.Sprintf("%s#%d", ci.name, siteNo)]...)
		c.markHint(ci.name)
		c.markHint(fmt.Sprintf("%s#%d", ci.name, siteNo))
		for k, h := range hs {
			// a fact the contract asks to be established here (proved, then available as a lemma)
			env := c.fnEnv(c.st, c.entry, false)
			if blk := ins.Block(); blk != nil {
				at := len(blk.Instrs)
				for i, x := range blk.Instrs {
					if x == ins {
						at = i
					}
				}
				env.lookup = c.localLookup(blk, at, nil)
			}
			ce := c.calleeEnv(ci, args, nil, c.st, c.entry)
			for n, tv := range ce.vars {
				// p0.. / recv denote the callee's arguments inside a hint
				_, clash := env.vars[n]
				if !clash || n == "recv" || (len(n) >= 2 && n[0] == 'p' && n[1] >= '0' && n[1] <= '9') {
					env.vars[n] = tv
				}
			}
			txt := c.g.exprTextAt(pos, "call")
			if len(txt) > 40 {
				txt = txt[:40]
			}
			label := fmt.Sprintf("#%d", k+1)
			if k >= nGeneric && siteNo > 0 {
				// site-specific hints carry their site so that two sites with the same call text stay apart
				label = fmt.Sprintf("@%d#%d", siteNo, k-nGeneric+1)
			}
			o := c.oblig(fmt.Sprintf("%s/hint:%s%s:%s", c.name, ci.name, label, txt), "hint", c.g.posStr(pos), false)
			o.Desc = h.Text
			o.Tags = h.Tags
			c.assertG(o, c.mustClause(h, env), c.mustGoal(h, env))
		}
	}
	rtypes := c.resultTypes(ci.sig)
	var results []Term
	for i, rt := range rtypes {
		results = append(results, c.freshConst(fmt.Sprintf("call%s$r%d", sanitize(lastName(ci.name)), i), c.sortOf(rt)))
	}
	spec := c.g.specs.Funcs[ci.name]
	if ci.fn != nil && ci.fn.Synthetic != "" && spec == nil {
		// wrappers / bound methods: try the underlying method's contract
		spec = nil
	}
	switch {
	case c.isAtomicOrSync(ci) && spec == nil:
		c.atomicCall(ci, args, locs, results)
	case spec != nil:
		c.applySpec(spec, ci, args, results, pos)
	case !ci.external && c.g.pure[ci.name]:
		// inferred effect-free (purity.go): nothing the caller can see changes
		c.inferredPure[ci.name] = true
	default:
		c.uncontr[ci.name] = true
		if ci.external && c.g.specs.PurePkgs[ci.pkgName] {
			// assumed not to touch memory reachable from the caller
		} else if ci.external {
			c.havocState(func(comp string) bool { return strings.HasPrefix(comp, "ghost$") })
		} else {
			c.havocState(nil)
		}
	}
	for i, rt := range rtypes {
		c.assume(c.tyInv(results[i], rt))
	}
	if c.spec != nil && len(c.spec.Sets) > 0 {
		// ghost assignments attached to this call ("after <callee> set g = e"): evaluated in the state
		// right after the call, with the callee's arguments and results in scope
		siteNo := len(c.callRes[ci.name])
		gs := append([]*GhostSet{}, c.spec.Sets[ci.name]...)
		gs = append(gs, c.spec.Sets[fmt.Sprintf("%s#%d", ci.name, siteNo)]...)
		for _, g := range gs {
			comp, _, ok := c.localGhost(g.Name)
			if !ok {
				panic(unsupported("after ... set: unknown ghostvar " + g.Name))
			}
			env := c.fnEnv(c.st, c.entry, false)
			if blk := ins.Block(); blk != nil {
				at := len(blk.Instrs)
				for i, x := range blk.Instrs {
					if x == ins {
						at = i
					}
				}
				env.lookup = c.localLookup(blk, at, nil)
			}
			ce := c.calleeEnv(ci, args, results, c.st, c.entry)
			for n, tv := range ce.vars {
				_, clash := env.vars[n]
				if !clash || n == "recv" || (len(n) >= 2 && (n[0] == 'p' || n[0] == 'r') && n[1] >= '0' && n[1] <= '9') {
					env.vars[n] = tv
				}
			}
			v, _ := c.tr(g.E.E, env)
			n := c.freshComp(comp)
			c.assume(eq(n, v))
			c.set(comp, n)
		}
	}
	if cl, ok := ins.(*ssa.Call); ok && len(results) == 1 {
		if T, ok := c.g.privateObject(cl); ok {
			c.private = append(c.private, privObj{results[0], T, cl.Block()})
		}
	}
	c.callRes[ci.name] = append(c.callRes[ci.name], callSiteRes{results, rtypes, c.snapshot()})
	// copy-out
	for i, l := range locs {
		if l == nil {
			continue
		}
		if !isStruct(l.T) {
			if _, isArr := l.T.Underlying().(*types.Array); !isArr {
				comp := c.cellComp(l.T)
				nv := app("select", c.get(c.st, comp), args[i])
				c.storeLoc(l, nv)
				c.assume(c.tyInv(c.loadLoc(l, c.st), l.T))
			}
		}
	}
	c.setResults(val, results)
}

func lastName(s string) string {
	if i := strings.LastIndexAny(s, ".:"); i >= 0 {
		return s[i+1:]
	}
	return s
}

func (c *FnCtx) dropOblig(o *Oblig) {
	if o.N > 1 {
		o.N--
		return
	}
	delete(c.oblByID, o.ID)
	for i, x := range c.obls {
		if x == o {
			c.obls = append(c.obls[:i], c.obls[i+1:]...)
			break
		}
	}
}

// stableAtomic: the receiver is a struct field declared "stable" in the specs: its atomic value is
// modelled by the ghost map atomicVal (no concurrent change during this activation - an assumption).
func (c *FnCtx) stableAtomic(ci *calleeInfo) bool {
	if len(ci.args) == 0 {
		return false
	}
	fa, ok := ci.args[0].(*ssa.FieldAddr)
	if !ok {
		return false
	}
	st := fa.X.Type().Underlying().(*types.Pointer).Elem()
	n, ok := st.(*types.Named)
	if !ok {
		return false
	}
	return c.g.specs.Stable[n.Obj().Name()+"."+st.Underlying().(*types.Struct).Field(fa.Field).Name()]
}

func (c *FnCtx) atomicCall(ci *calleeInfo, args []Term, locs []*Loc, results []Term) {
	if c.stableAtomic(ci) {
		comp := c.comp("ghost$atomicVal", "(Array Int Int)")
		cur := c.get(c.st, comp)
		switch {
		case strings.HasSuffix(ci.name, ".Load") && len(results) == 1 && c.sortOfResult(ci) == "Int":
			c.assume(eq(results[0], app("select", cur, args[0])))
			c.trusted["stable atomic field (no concurrent change during one call): "+ci.name] = true
			return
		case strings.HasSuffix(ci.name, ".Store") && len(args) == 2 && c.sortOfResult(ci) == "":
			n := c.freshComp(comp)
			c.assume(eq(n, app("store", cur, args[0], args[1])))
			c.set(comp, n)
			return
		}
	}
	// shared memory: every read is arbitrary (covers every interleaving); writes have no
	// effect visible to this sequential proof. Results are fresh (already declared).
	c.trusted["sync/atomic + sync: reads are arbitrary, writes invisible (over-approximates all schedules)"] = true
}

func (c *FnCtx) applySpec(spec *FuncSpec, ci *calleeInfo, args []Term, results []Term, pos token.Pos) {
	if spec.Trusted {
		c.trusted[spec.Name] = true
	}
	pre := c.snapshot()
	gn := ghostNames(spec)
	envPre := c.calleeEnv(ci, args, nil, pre, nil)
	for k, r := range spec.Requires {
		if exprMentions(r.E, gn) {
			continue // logical-variable clause: not checkable at call sites
		}
		kind := "pre"
		safety := spec.Panics
		o := c.oblig(fmt.Sprintf("%s/call:%s/pre#%d", c.name, spec.Name, k+1), kind, c.g.posStr(pos), safety)
		o.Desc = r.Text
		o.Tags = r.Tags
		c.assertG(o, c.mustClause(r, envPre), c.mustGoal(r, envPre))
	}
	// frame
	if !spec.HasAssigns || spec.AssignsAll {
		if ci.external {
			c.havocState(func(comp string) bool { return strings.HasPrefix(comp, "ghost$") })
		} else {
			c.havocState(nil)
		}
	} else {
		ts, err := c.assignTargets(spec, envPre)
		if err != nil {
			panic(unsupported(err.Error()))
		}
		if spec.ArgsOnly {
			ts = append(ts, c.argTargets(ci)...)
		}
		c.havocTargets(ts)
		// allocation may have happened
		oldA := c.get(c.st, "$alloc")
		na := c.freshComp("$alloc")
		c.assume(app("<=", oldA, na))
		c.set("$alloc", na)
	}
	envPost := c.calleeEnv(ci, args, results, c.st, pre)
	for _, e := range spec.Ensures {
		if exprMentions(e.E, gn) {
			continue
		}
		c.assume(c.mustClause(e, envPost))
	}
}

// ---------- builtins

func (c *FnCtx) builtin(name string, cc *ssa.CallCommon, val ssa.Value, pos token.Pos) {
	switch name {
	case "len":
		a := c.v(cc.Args[0])
		switch u := cc.Args[0].Type().Underlying().(type) {
		case *types.Slice:
			c.def(val, app("s-len", a))
		case *types.Basic:
			c.def(val, app("str-len", a))
		case *types.Map:
			_, _, ln := c.mapComps(u)
			r := c.defFresh(val)
			c.assume(eq(r, ite(eq(a, "0"), "0", app("select", c.get(c.st, ln), a))))
			c.assume(app("<=", "0", r))
		case *types.Chan:
			r := c.defFresh(val)
			c.assume(app("<=", "0", r))
		case *types.Pointer:
			c.def(val, num(u.Elem().Underlying().(*types.Array).Len()))
		case *types.Array:
			c.def(val, num(u.Len()))
		default:
			panic(unsupported("len of " + cc.Args[0].Type().String()))
		}
	case "cap":
		a := c.v(cc.Args[0])
		switch u := cc.Args[0].Type().Underlying().(type) {
		case *types.Slice:
			c.def(val, app("s-cap", a))
		case *types.Pointer:
			c.def(val, num(u.Elem().Underlying().(*types.Array).Len()))
		case *types.Array:
			c.def(val, num(u.Len()))
		default:
			r := c.defFresh(val)
			c.assume(app("<=", "0", r))
		}
	case "append":
		c.appendCall(cc, val)
	case "copy":
		c.copyCall(cc, val)
	case "min", "max":
		op := "<="
		if name == "max" {
			op = ">="
		}
		r := c.v(cc.Args[0])
		for _, a := range cc.Args[1:] {
			b := c.v(a)
			r = ite(app(op, r, b), r, b)
		}
		c.def(val, r)
	case "panic":
		// the ssa.Panic instruction terminates the block
	case "print", "println":
	case "recover":
		if val != nil {
			c.defFresh(val)
		}
	case "close":
		c.chanClose(cc.Args[0], pos)
	case "delete":
		mt := cc.Args[0].Type().Underlying().(*types.Map)
		m := c.v(cc.Args[0])
		k := c.v(cc.Args[1])
		has, _, ln := c.mapComps(mt)
		oh, ol := c.get(c.st, has), c.get(c.st, ln)
		was := app("select", app("select", oh, m), k)
		nh, nl := c.freshComp(has), c.freshComp(ln)
		c.assume(eq(nh, ite(eq(m, "0"), oh, app("store", oh, m, app("store", app("select", oh, m), k, "false")))))
		c.assume(eq(nl, ite(eq(m, "0"), ol, app("store", ol, m, app("-", app("select", ol, m), ite(was, "1", "0"))))))
		c.set(has, nh)
		c.set(ln, nl)
	case "clear":
		c.havocState(func(comp string) bool { return strings.HasPrefix(comp, "ghost$") })
	case "real", "imag", "complex":
		if val != nil {
			c.defFresh(val)
		}
	default:
		panic(unsupported("builtin " + name))
	}
}

func (c *FnCtx) appendCall(cc *ssa.CallCommon, val ssa.Value) {
	st := cc.Args[0].Type().Underlying().(*types.Slice)
	el := st.Elem()
	s := c.v(cc.Args[0])
	comp := c.elemComp(el)
	old := c.get(c.st, comp)
	var addLen Term
	var addAt func(j Term) Term
	if len(cc.Args) < 2 {
		c.def(val, s)
		return
	}
	a2 := cc.Args[1]
	t := c.v(a2)
	if isString(a2.Type()) {
		addLen = app("str-len", t)
		addAt = func(j Term) Term { return app("select", app("str-arr", t), j) }
	} else {
		addLen = app("s-len", t)
		addAt = func(j Term) Term {
			return app("select", c.inner(old, app("s-ref", t)), idxAt(app("s-off", t), j))
		}
	}
	fresh := c.allocRef()
	r := c.defFresh(val)
	n := c.freshComp(comp)
	c.set(comp, n)
	newLen := app("+", app("s-len", s), addLen)
	inPlace := and(eq(app("s-ref", r), app("s-ref", s)), eq(app("s-off", r), app("s-off", s)), eq(app("s-cap", r), app("s-cap", s)),
		app("<=", newLen, app("s-cap", s)), not(eq(app("s-ref", s), "0")))
	moved := and(eq(app("s-ref", r), fresh), eq(app("s-off", r), "0"), app(">=", app("s-cap", r), newLen))
	c.assume(eq(app("s-len", r), newLen))
	c.assume(or(inPlace, moved))
	c.assume(implies(app(">", newLen, app("s-cap", s)), moved))
	c.assume(implies(eq(addLen, "0"), or(inPlace, eq(app("s-ref", s), "0"), moved)))
	// contents
	rr, ro := app("s-ref", r), app("s-off", r)
	sl := app("s-len", s)
	c.assume(fmt.Sprintf("(forall ((q$j Int)) (! (=> (and (<= 0 q$j) (< q$j %s)) (= (select (select %s %s) (at %s q$j)) (select %s (at %s q$j)))) :pattern ((select (select %s %s) (at %s q$j)))))",
		sl, n, rr, ro, c.inner(old, app("s-ref", s)), app("s-off", s), n, rr, ro))
	c.assume(fmt.Sprintf("(forall ((q$j Int)) (! (=> (and (<= %s q$j) (< q$j %s)) (= (select (select %s %s) (at %s q$j)) %s)) :pattern ((select (select %s %s) (at %s q$j)))))",
		sl, newLen, n, rr, ro, addAt(app("-", "q$j", sl)), n, rr, ro))
	// frame: other arrays untouched; in place: cells outside the appended window untouched
	c.assume(fmt.Sprintf("(forall ((q$r Int)) (! (=> (not (= q$r %s)) (= (select %s q$r) (select %s q$r))) :pattern ((select %s q$r))))", rr, n, old, n))
	c.assume(implies(inPlace, fmt.Sprintf("(forall ((q$j Int)) (! (=> (or (< q$j (+ %s %s)) (>= q$j (+ %s %s))) (= (select (select %s %s) q$j) (select (select %s %s) q$j))) :pattern ((select (select %s %s) q$j))))",
		ro, sl, ro, newLen, n, rr, old, rr, n, rr)))
}

func (c *FnCtx) copyCall(cc *ssa.CallCommon, val ssa.Value) {
	dt := cc.Args[0].Type().Underlying().(*types.Slice)
	el := dt.Elem()
	d := c.v(cc.Args[0])
	s := c.v(cc.Args[1])
	comp := c.elemComp(el)
	old := c.get(c.st, comp)
	var srcLen Term
	var srcAt func(j Term) Term
	if isString(cc.Args[1].Type()) {
		srcLen = app("str-len", s)
		srcAt = func(j Term) Term { return app("select", app("str-arr", s), j) }
	} else {
		srcLen = app("s-len", s)
		srcAt = func(j Term) Term {
			return app("select", c.inner(old, app("s-ref", s)), idxAt(app("s-off", s), j))
		}
	}
	nn := c.freshConst("copyn", "Int")
	c.assume(eq(nn, ite(app("<=", app("s-len", d), srcLen), app("s-len", d), srcLen)))
	if val != nil {
		c.def(val, nn)
	}
	n := c.freshComp(comp)
	c.set(comp, n)
	dr, do := app("s-ref", d), app("s-off", d)
	c.assume(fmt.Sprintf("(forall ((q$j Int)) (! (=> (and (<= 0 q$j) (< q$j %s)) (= (select (select %s %s) (at %s q$j)) %s)) :pattern ((select (select %s %s) (at %s q$j)))))",
		nn, n, dr, do, srcAt("q$j"), n, dr, do))
	c.assume(fmt.Sprintf("(forall ((q$r Int)) (! (=> (not (= q$r %s)) (= (select %s q$r) (select %s q$r))) :pattern ((select %s q$r))))", dr, n, old, n))
	c.assume(fmt.Sprintf("(forall ((q$j Int)) (! (=> (or (< q$j %s) (>= q$j (+ %s %s))) (= (select (select %s %s) q$j) (select (select %s %s) q$j))) :pattern ((select (select %s %s) q$j))))",
		do, do, nn, n, dr, old, dr, n, dr))
}

// ---------- defers

func (c *FnCtx) runDefers(x *ssa.RunDefers) {
	ds := c.allDefers()
	for i := len(ds) - 1; i >= 0; i-- {
		d := ds[i]
		if c.blocks[d.Block()] == nil {
			continue
		}
		// only defers executed on the way here matter
		if !(d.Block() == x.Block() || d.Block().Dominates(x.Block())) {
			if c.reaches(d.Block(), x.Block()) {
				c.warn("conditional defer at %s: effect over-approximated by havoc", c.g.posStr(d.Pos()))
				mods := map[string]bool{}
				if c.callMods(&d.Call, mods) {
					c.havocState(nil)
				} else {
					for comp := range mods {
						c.set(comp, c.freshComp(comp))
					}
				}
			}
			continue
		}
		// values used by the deferred call were evaluated at the defer statement
		c.call(d, &d.Call, nil)
	}
}

func (c *FnCtx) reaches(a, b *ssa.BasicBlock) bool {
	seen := map[*ssa.BasicBlock]bool{}
	var dfs func(x *ssa.BasicBlock) bool
	dfs = func(x *ssa.BasicBlock) bool {
		if x == b {
			return true
		}
		if seen[x] {
			return false
		}
		seen[x] = true
		for _, s := range x.Succs {
			if dfs(s) {
				return true
			}
		}
		return false
	}
	return dfs(a)
}

// ---------- channels
// A channel stored in a struct field may carry a contract "chan:<Struct>.<field>.recv" / ".send"
// (env: recv = the struct, r0 = received value, p0 = sent value). Without one, received values
// are arbitrary well-typed values. Blocking, capacity and fairness are not modelled.

type chanOrigin struct {
	owner Term
	st    types.Type
	field string
}

func (c *FnCtx) chanOrigin(ch ssa.Value) *chanOrigin {
	u, ok := ch.(*ssa.UnOp)
	if !ok || u.Op != token.MUL {
		return nil
	}
	fa, ok := u.X.(*ssa.FieldAddr)
	if !ok {
		return nil
	}
	st := fa.X.Type().Underlying().(*types.Pointer).Elem()
	n, ok := st.(*types.Named)
	if !ok {
		return nil
	}
	owner, ok := c.vals[fa.X]
	if !ok {
		if _, isLoc := c.locs[fa.X]; isLoc {
			return nil
		}
		owner = c.v(fa.X)
	}
	return &chanOrigin{owner: owner, st: types.NewPointer(st), field: n.Obj().Name() + "." + st.Underlying().(*types.Struct).Field(fa.Field).Name()}
}

func (c *FnCtx) chanSpec(ch ssa.Value, op string) (*FuncSpec, *chanOrigin) {
	o := c.chanOrigin(ch)
	if o == nil {
		return nil, nil
	}
	return c.g.specs.Funcs["chan:"+o.field+"."+op], o
}

func (c *FnCtx) chanEnv(o *chanOrigin, name string, val Term, vt types.Type, st, old *State) *Env {
	env := &Env{vars: map[string]TV{}, st: st, oldSt: old}
	env.vars["recv"] = TV{T: o.owner, Ty: o.st}
	if name != "" {
		env.vars[name] = TV{T: val, Ty: vt}
	}
	return env
}

func (c *FnCtx) chanMods(ch ssa.Value, out map[string]bool) {
	// static: any channel contract's assigns (dry evaluation)
	u, ok := ch.(*ssa.UnOp)
	if !ok {
		return
	}
	fa, ok := u.X.(*ssa.FieldAddr)
	if !ok {
		return
	}
	st := fa.X.Type().Underlying().(*types.Pointer).Elem()
	n, ok := st.(*types.Named)
	if !ok {
		return
	}
	fname := n.Obj().Name() + "." + st.Underlying().(*types.Struct).Field(fa.Field).Name()
	for _, op := range []string{"recv", "send"} {
		spec := c.g.specs.Funcs["chan:"+fname+"."+op]
		if spec == nil {
			continue
		}
		var ts []target
		var err error
		c.dryRun(func() {
			env := &Env{vars: map[string]TV{"recv": {T: "0", Ty: types.NewPointer(st)}}, st: &State{m: map[string]Term{}, havoc: true}}
			ts, err = c.assignTargets(spec, env)
		})
		if err == nil {
			for _, t := range ts {
				out[t.comp] = true
			}
		}
	}
}

func (c *FnCtx) chanSend(ch, x ssa.Value, pos token.Pos, ins ssa.Instruction) {
	_ = c.v(ch)
	val := c.v(x)
	if n := chanVarName(ch); n != "" && ins != nil {
		// "before send:<channel variable> assert ..." / "after send:<channel variable> set ..."
		extra := map[string]TV{"p0": {T: val, Ty: x.Type()}, "$guarded": {T: "false", Ty: tBool}}
		c.pointHints("send:"+n, ins, pos, extra)
		defer c.pointSets("send:"+n, ins, extra)
	}
	spec, o := c.chanSpec(ch, "send")
	if spec == nil {
		return
	}
	c.trusted[spec.Name] = true
	pre := c.snapshot()
	env := c.chanEnv(o, "p0", val, x.Type(), pre, nil)
	for k, r := range spec.Requires {
		ob := c.oblig(fmt.Sprintf("%s/send:%s/pre#%d", c.name, o.field, k+1), "pre", c.g.posStr(pos), false)
		ob.Desc = r.Text
		c.assertG(ob, c.mustClause(r, env), c.mustGoal(r, env))
	}
	ts, err := c.assignTargets(spec, env)
	if err != nil {
		panic(unsupported(err.Error()))
	}
	c.havocTargets(ts)
	envPost := c.chanEnv(o, "p0", val, x.Type(), c.st, pre)
	for _, e := range spec.Ensures {
		c.assume(c.mustClause(e, envPost))
	}
}

func (c *FnCtx) chanClose(ch ssa.Value, pos token.Pos) {}

func (c *FnCtx) chanRecv(x *ssa.UnOp) {
	var val Term
	var vt types.Type
	if x.CommaOk {
		tup := x.Type().(*types.Tuple)
		vt = tup.At(0).Type()
		val = c.freshConst(c.regName(x)+"$v", c.sortOf(vt))
		b := c.freshConst(c.regName(x)+"$ok", "Bool")
		c.assume(c.tyInv(val, vt))
		c.tuples[x] = []Term{val, b}
	} else {
		val = c.defFresh(x)
		vt = x.Type()
	}
	if n := chanVarName(x.X); n != "" {
		// "after recv:<channel variable> set ...": r0 is the received value, ok whether the channel was open
		extra := map[string]TV{"r0": {T: val, Ty: vt}, "ok": {T: "true", Ty: tBool}}
		if x.CommaOk {
			extra["ok"] = TV{T: c.tuples[x][1], Ty: tBool}
		}
		c.pointHints("recv:"+n, x, x.Pos(), map[string]TV{"$guarded": {T: "false", Ty: tBool}})
		defer c.pointSets("recv:"+n, x, extra)
	}
	spec, o := c.chanSpec(x.X, "recv")
	if spec == nil {
		return
	}
	c.trusted[spec.Name] = true
	pre := c.snapshot()
	env := c.chanEnv(o, "", "", nil, pre, nil)
	ts, err := c.assignTargets(spec, env)
	if err != nil {
		panic(unsupported(err.Error()))
	}
	c.havocTargets(ts)
	envPost := c.chanEnv(o, "r0", val, vt, c.st, pre)
	for _, e := range spec.Ensures {
		c.assume(c.mustClause(e, envPost))
	}
}

func (c *FnCtx) selectStmt(x *ssa.Select) {
	tup := x.Type().(*types.Tuple)
	idx := c.freshConst(c.regName(x)+"$idx", "Int")
	lo := "0"
	if !x.Blocking {
		lo = "(- 1)"
	}
	c.assume(and(app("<=", lo, idx), app("<", idx, num(int64(len(x.States))))))
	ts := []Term{idx, c.freshConst(c.regName(x)+"$ok", "Bool")}
	for i := 2; i < tup.Len(); i++ {
		t := tup.At(i).Type()
		a := c.freshConst(fmt.Sprintf("%s$%d", c.regName(x), i), c.sortOf(t))
		c.assume(c.tyInv(a, t))
		ts = append(ts, a)
	}
	c.tuples[x] = ts
	// local channels (plain variables): "before send:<var> assert" holds before the select whatever case
	// is chosen (the value to be sent is already computed); "after send:/recv:<var> set" takes effect
	// only if that case is the chosen one
	// guarded(): this channel operation cannot block for ever on its own - the select has a default
	// case, or an arm that receives from a cancellation channel (the result of a Done() call)
	guarded := "false"
	if !x.Blocking {
		guarded = "true"
	}
	for _, st := range x.States {
		if st.Dir == types.RecvOnly && chanVarName(st.Chan) == "Done()" {
			guarded = "true"
		}
	}
	kk := 2
	for i, st := range x.States {
		n := chanVarName(st.Chan)
		chosen := eq(idx, num(int64(i)))
		if st.Dir == types.SendOnly {
			if n != "" {
				extra := map[string]TV{"p0": {T: c.v(st.Send), Ty: st.Send.Type()}, "$guarded": {T: guarded, Ty: tBool}}
				c.pointHints("send:"+n, x, st.Pos, extra)
				c.pointSetsCond("send:"+n, x, extra, chosen)
			}
			continue
		}
		val, vt := ts[kk], tup.At(kk).Type()
		kk++
		if n != "" {
			// ("before recv:<var> assert" may only speak about the state before the select and guarded())
			c.pointHints("recv:"+n, x, st.Pos, map[string]TV{"$guarded": {T: guarded, Ty: tBool}})
			extra := map[string]TV{"r0": {T: val, Ty: vt}, "ok": {T: ts[1], Ty: tBool}}
			c.pointSetsCond("recv:"+n, x, extra, chosen)
		}
	}
	// contracts of the receive cases, each conditional on the chosen index
	type rc struct {
		i    int
		spec *FuncSpec
		o    *chanOrigin
		val  Term
		vt   types.Type
		tgts []target
	}
	var rcs []rc
	k := 2
	pre := c.snapshot()
	for i, st := range x.States {
		if st.Dir != types.RecvOnly {
			continue
		}
		val, vt := ts[k], tup.At(k).Type()
		k++
		spec, o := c.chanSpec(st.Chan, "recv")
		if spec == nil {
			continue
		}
		c.trusted[spec.Name] = true
		env := c.chanEnv(o, "", "", nil, pre, nil)
		tg, err := c.assignTargets(spec, env)
		if err != nil {
			panic(unsupported(err.Error()))
		}
		rcs = append(rcs, rc{i, spec, o, val, vt, tg})
	}
	if len(rcs) == 0 {
		return
	}
	changedBy := map[string][]int{}
	var all []target
	for _, r := range rcs {
		for _, t := range r.tgts {
			changedBy[t.comp] = append(changedBy[t.comp], r.i)
			all = append(all, target{t.comp, ""})
		}
	}
	c.havocTargets(all)
	for comp, is := range changedBy {
		var conds []Term
		for _, i := range is {
			conds = append(conds, not(eq(idx, num(int64(i)))))
		}
		c.assume(implies(and(conds...), eq(c.get(c.st, comp), c.get(pre, comp))))
	}
	for _, r := range rcs {
		envPost := c.chanEnv(r.o, "r0", r.val, r.vt, c.st, pre)
		for _, e := range r.spec.Ensures {
			c.assume(implies(eq(idx, num(int64(r.i))), c.mustClause(e, envPost)))
		}
	}
}

func (c *FnCtx) sortOfResult(ci *calleeInfo) string {
	if ci.sig.Results().Len() == 0 {
		return ""
	}
	return c.sortOf(ci.sig.Results().At(0).Type())
}

// dryRun evaluates f (a spec translation used only for its static result) and rolls back every
// side effect on the query under construction.
func (c *FnCtx) dryRun(f func()) {
	copyB := func(m map[string]bool) map[string]bool {
		n := map[string]bool{}
		for k, v := range m {
			n[k] = v
		}
		return n
	}
	declared, decls, fresh, axioms := c.declared, c.decls, c.fresh, len(c.axioms)
	wf, box, pure := c.specWFDone, c.boxDecl, c.pureDecl
	lits := c.strLits
	nl := map[string]Term{}
	for k, v := range lits {
		nl[k] = v
	}
	c.declared, c.specWFDone, c.boxDecl, c.pureDecl, c.strLits = copyB(declared), copyB(wf), copyB(box), copyB(pure), nl
	ttDecls, ttKnown := len(c.tt.decls), copyB(c.tt.known)
	defer func() {
		c.declared, c.decls, c.fresh = declared, decls, fresh
		c.axioms = c.axioms[:axioms]
		c.specWFDone, c.boxDecl, c.pureDecl, c.strLits = wf, box, pure, lits
		_ = ttDecls
		_ = ttKnown
	}()
	f()
}

// chanVarName: the source variable a channel operand comes from (a captured variable, a parameter,
// or a local), "" if it is not a plain variable.
func chanVarName(ch ssa.Value) string {
	switch x := ch.(type) {
	case *ssa.Parameter:
		return x.Name()
	case *ssa.FreeVar:
		return x.Name()
	case *ssa.UnOp:
		if x.Op == token.MUL {
			switch y := x.X.(type) {
			case *ssa.FreeVar:
				return y.Name()
			case *ssa.Alloc:
				return y.Comment
			case *ssa.FieldAddr:
				// a channel held in a field of a named variable: "ctx.succ"
				if b := chanVarName(y.X); b != "" {
					if st, ok := y.X.Type().Underlying().(*types.Pointer); ok {
						if s, ok := st.Elem().Underlying().(*types.Struct); ok {
							return b + "." + s.Field(y.Field).Name()
						}
					}
				}
			}
		}
	case *ssa.Call:
		// a call result bound to a local variable is named after it (x := f(); <-x: "x")
		if refs := x.Referrers(); refs != nil {
			for _, r := range *refs {
				if d, ok := r.(*ssa.DebugRef); ok && !d.IsAddr {
					if id, ok := d.Expr.(*ast.Ident); ok {
						return id.Name
					}
				}
			}
		}
		// the channel a call returns, e.g. ctx.Done(): named "Done()"
		if x.Call.IsInvoke() {
			return x.Call.Method.Name() + "()"
		}
		if f := x.Call.StaticCallee(); f != nil {
			return f.Name() + "()"
		}
	case *ssa.Alloc:
		// the object a local pointer variable was initialised with (ctx := &T{...}): named after that variable
		if refs := x.Referrers(); refs != nil {
			for _, r := range *refs {
				if d, ok := r.(*ssa.DebugRef); ok && !d.IsAddr {
					if id, ok := d.Expr.(*ast.Ident); ok {
						return id.Name
					}
				}
			}
		}
	case *ssa.MakeChan:
		if refs := x.Referrers(); refs != nil {
			for _, r := range *refs {
				if d, ok := r.(*ssa.DebugRef); ok {
					if id, ok := d.Expr.(*ast.Ident); ok {
						return id.Name
					}
				}
			}
		}
	}
	return ""
}

// pointEnv: the function's environment at a program point, with extra names in scope.
func (c *FnCtx) pointEnv(ins ssa.Instruction, extra map[string]TV) *Env {
	env := c.fnEnv(c.st, c.entry, false)
	if blk := ins.Block(); blk != nil {
		at := len(blk.Instrs)
		for i, x := range blk.Instrs {
			if x == ins {
				at = i
			}
		}
		env.lookup = c.localLookup(blk, at, nil)
	}
	for n, tv := range extra {
		env.vars[n] = tv
	}
	return env
}

// pointSets applies the ghost assignments "after <key> set g = e" of the contract at this point.
func (c *FnCtx) pointSets(key string, ins ssa.Instruction, extra map[string]TV) {
	if c.spec == nil {
		return
	}
	for _, g := range c.spec.Sets[key] {
		comp, _, ok := c.localGhost(g.Name)
		if !ok {
			panic(unsupported("after ... set: unknown ghostvar " + g.Name))
		}
		v, _ := c.tr(g.E.E, c.pointEnv(ins, extra))
		n := c.freshComp(comp)
		c.assume(eq(n, v))
		c.set(comp, n)
	}
}

// pointSetsCond: like pointSets, but the assignment happens only if cond holds.
func (c *FnCtx) pointSetsCond(key string, ins ssa.Instruction, extra map[string]TV, cond Term) {
	if c.spec == nil {
		return
	}
	for _, g := range c.spec.Sets[key] {
		comp, _, ok := c.localGhost(g.Name)
		if !ok {
			panic(unsupported("after ... set: unknown ghostvar " + g.Name))
		}
		v, _ := c.tr(g.E.E, c.pointEnv(ins, extra))
		old := c.get(c.st, comp)
		n := c.freshComp(comp)
		c.assume(eq(n, ite(cond, v, old)))
		c.set(comp, n)
	}
}

// pointHints proves (then assumes) the facts "before <key> assert e" of the contract at this point.
func (c *FnCtx) pointHints(key string, ins ssa.Instruction, pos token.Pos, extra map[string]TV) {
	if c.spec == nil {
		return
	}
	// "before send:ch assert" applies at every such point, "before send:ch#k assert" only at the k-th (SSA order)
	site := c.pointSiteIndex(key, ins)
	c.markHint(key)
	c.markHint(fmt.Sprintf("%s#%d", key, site))
	for k, h := range c.spec.Hints[fmt.Sprintf("%s#%d", key, site)] {
		env := c.pointEnv(ins, extra)
		o := c.oblig(fmt.Sprintf("%s/hint:%s@%d#%d", c.name, key, site, k+1), "hint", c.g.posStr(pos), false)
		o.Desc = h.Text
		o.Tags = h.Tags
		c.assertG(o, c.mustClause(h, env), c.mustGoal(h, env))
	}
	for k, h := range c.spec.Hints[key] {
		env := c.pointEnv(ins, extra)
		o := c.oblig(fmt.Sprintf("%s/hint:%s#%d", c.name, key, k+1), "hint", c.g.posStr(pos), false)
		o.Desc = h.Text
		o.Tags = h.Tags
		c.assertG(o, c.mustClause(h, env), c.mustGoal(h, env))
	}
}

// pointSiteIndex: how many program points with the same key precede ins in SSA (block, instruction) order.
func (c *FnCtx) pointSiteIndex(key string, ins ssa.Instruction) int {
	n := 0
	for _, b := range c.fn.Blocks {
		for _, x := range b.Instrs {
			if x == ins {
				return n
			}
			switch y := x.(type) {
			case *ssa.Send:
				if "send:"+chanVarName(y.Chan) == key {
					n++
				}
			case *ssa.UnOp:
				if y.Op == token.ARROW && "recv:"+chanVarName(y.X) == key {
					n++
				}
			case *ssa.Select:
				for _, st := range y.States {
					if st.Dir == types.SendOnly && "send:"+chanVarName(st.Chan) == key {
						n++
					}
					if st.Dir == types.RecvOnly && "recv:"+chanVarName(st.Chan) == key {
						n++
					}
				}
			case *ssa.Go:
				if "go:"+c.resolveCallee(&y.Call).name == key {
					n++
				}
			}
		}
	}
	return n
}

// markHint records that the program point a "before <key> assert" clause is attached to exists in this function.
func (c *FnCtx) markHint(key string) {
	if c.hintSeen == nil {
		c.hintSeen = map[string]bool{}
	}
	c.hintSeen[key] = true
}

// deadHints: "before <key> assert" clauses whose program point does not exist in the function - such a clause
// would claim nothing; the contract is reported as not applicable to the code instead.
func (c *FnCtx) deadHints() []string {
	var out []string
	if c.spec == nil {
		return nil
	}
	for key, hs := range c.spec.Hints {
		if len(hs) > 0 && !c.hintSeen[key] {
			out = append(out, key)
		}
	}
	sort.Strings(out)
	return out
}
