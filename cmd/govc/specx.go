package main

import (
	"reflect"
	"fmt"
	"go/constant"
	"go/types"
	"strings"

	"golang.org/x/tools/go/ssa"
)

type Env struct {
	vars   map[string]TV
	st     *State
	oldSt  *State
	lookup func(name string) (TV, bool)
	goal   bool // translating a proof goal: positive universal quantifiers are skolemised
	inOld  bool // inside old(...): parameter names denote entry values
}

func (e *Env) withGoal(g bool) *Env {
	if e.goal == g {
		return e
	}
	n := *e
	n.goal = g
	return &n
}

func (e *Env) child() *Env {
	n := &Env{vars: map[string]TV{}, st: e.st, oldSt: e.oldSt, lookup: e.lookup, goal: e.goal, inOld: e.inOld}
	for k, v := range e.vars {
		n.vars[k] = v
	}
	return n
}

type specErr string

func (c *FnCtx) specFail(format string, a ...interface{}) {
	panic(specErr(fmt.Sprintf(format, a...)))
}

// trClause translates a boolean clause; errors are reported with source location.
func (c *FnCtx) trClause(cl *Clause, env *Env) (t Term, err error) {
	defer func() {
		if r := recover(); r != nil {
			if s, ok := r.(specErr); ok {
				err = fmt.Errorf("%s: in %q: %s", cl.Src, cl.Text, string(s))
				return
			}
			panic(r)
		}
	}()
	t, ty := c.tr(cl.E, env)
	if !isBoolean(ty) {
		return "", fmt.Errorf("%s: clause %q is not boolean (%s)", cl.Src, cl.Text, ty)
	}
	return t, nil
}

// mustGoal translates a clause as a proof goal (skolemised) .
func (c *FnCtx) mustGoal(cl *Clause, env *Env) Term {
	return c.mustClause(cl, env.withGoal(true))
}

func (c *FnCtx) mustClause(cl *Clause, env *Env) Term {
	t, err := c.trClause(cl, env)
	if err != nil {
		panic(unsupported(err.Error()))
	}
	return t
}

func constantString(k *ssa.Const) string { return constant.StringVal(k.Value) }

// localGhost: a ghost variable of the function under verification.
func (c *FnCtx) localGhost(name string) (string, types.Type, bool) {
	if c.spec == nil {
		return "", nil, false
	}
	for _, g := range c.spec.GhostVars {
		if g.Name == name {
			ty, err := c.g.parseSpecType(g.Type)
			if err != nil {
				c.specFail("ghostvar %s: %v", name, err)
			}
			return c.comp("lghost$"+name, c.sortOf(ty)), ty, true
		}
	}
	return "", nil, false
}

func (c *FnCtx) ghostGlobal(name string) (string, types.Type, bool) {
	for _, g := range c.g.specs.Globals {
		if g.Name == name {
			ty, err := c.g.parseSpecType(g.Type)
			if err != nil {
				c.specFail("ghost global %s: %v", name, err)
			}
			return c.comp("ghost$"+name, c.sortOf(ty)), ty, true
		}
	}
	return "", nil, false
}

func (c *FnCtx) resolveId(name string, env *Env) (Term, types.Type) {
	switch name {
	case "true":
		return "true", tBool
	case "false":
		return "false", tBool
	case "nil":
		return "0", types.Typ[types.UntypedNil]
	}
	// inside a loop the current value of a source variable (a phi, or its last definition before
	// the loop) takes precedence over the parameter of the same name; old(x) still denotes the entry value
	if env.lookup != nil && !env.inOld {
		if tv, ok := env.lookup(name); ok {
			if tv.Loc != nil {
				return c.loadLoc(tv.Loc, env.st), tv.Ty
			}
			return tv.T, tv.Ty
		}
	}
	if tv, ok := env.vars[name]; ok {
		if tv.Loc != nil {
			return c.loadLoc(tv.Loc, env.st), tv.Ty
		}
		return tv.T, tv.Ty
	}
	if tv, ok := c.ghostEnv[name]; ok {
		return tv.T, tv.Ty
	}
	if comp, ty, ok := c.localGhost(name); ok {
		return c.get(env.st, comp), ty
	}
	if comp, ty, ok := c.ghostGlobal(name); ok {
		return c.get(env.st, comp), ty
	}
	if o := c.g.tpkg.Scope().Lookup(name); o != nil {
		switch o := o.(type) {
		case *types.Var:
			comp := c.comp("G$"+sanitize(name), c.sortOf(o.Type()))
			return c.get(env.st, comp), o.Type()
		case *types.Const:
			switch o.Val().Kind() {
			case constant.Int:
				return numStr(o.Val().ExactString()), o.Type()
			case constant.String:
				return c.strLit(constant.StringVal(o.Val())), tString
			case constant.Bool:
				if constant.BoolVal(o.Val()) {
					return "true", tBool
				}
				return "false", tBool
			}
		}
	}
	c.specFail("unknown identifier %q", name)
	return "", nil
}

func derefStruct(t types.Type) (types.Type, bool) {
	if p, ok := t.Underlying().(*types.Pointer); ok {
		if isStruct(p.Elem()) {
			return p.Elem(), true
		}
	}
	return nil, false
}

func fieldIndex(st types.Type, name string) int {
	s := st.Underlying().(*types.Struct)
	for i := 0; i < s.NumFields(); i++ {
		if s.Field(i).Name() == name {
			return i
		}
	}
	return -1
}

func (c *FnCtx) coerce(a Term, at types.Type, b Term, bt types.Type) (Term, Term) {
	if isFloat(at) && isInteger(bt) {
		return a, app("to_real", b)
	}
	if isInteger(at) && isFloat(bt) {
		return app("to_real", a), b
	}
	return a, b
}

func (c *FnCtx) tr(e *Expr, env *Env) (Term, types.Type) {
	switch e.Op {
	case "int":
		return numStr(e.Name), types.Typ[types.UntypedInt]
	case "real":
		return e.Name, tReal
	case "str":
		return c.strLit(e.Name), tString
	case "id":
		return c.resolveId(e.Name, env)
	case "field":
		b, bt := c.tr(e.Args[0], env)
		if st, ok := derefStruct(bt); ok {
			k := fieldIndex(st, e.Name)
			if k < 0 {
				c.specFail("no field %s in %s", e.Name, st)
			}
			ft := st.Underlying().(*types.Struct).Field(k).Type()
			if isStruct(ft) {
				return app("sub", b, num(int64(k))), types.NewPointer(ft)
			}
			t := app("select", c.get(env.st, c.fieldComp(st, k)), b)
			c.specHeapWF(t, ft, env.st)
			return t, ft
		}
		if isStruct(bt) {
			k := fieldIndex(bt, e.Name)
			if k < 0 {
				c.specFail("no field %s in %s", e.Name, bt)
			}
			ft := bt.Underlying().(*types.Struct).Field(k).Type()
			return app(c.sortOf(bt)+"$f"+fmt.Sprint(k), b), ft
		}
		c.specFail("field %s of non-struct %s", e.Name, bt)
	case "index":
		b, bt := c.tr(e.Args[0], env)
		i, _ := c.tr(e.Args[1], env)
		switch u := bt.(type) {
		case *MathArr:
			return app("select", b, i), u.Elem
		}
		switch u := bt.Underlying().(type) {
		case *types.Slice:
			t := app("select", c.inner(c.get(env.st, c.elemComp(u.Elem())), app("s-ref", b)), idxAt(app("s-off", b), i))
			c.specHeapWF(t, u.Elem(), env.st)
			return t, u.Elem()
		case *types.Basic:
			if isString(bt) {
				return app("select", app("str-arr", b), i), tByte
			}
		case *types.Array:
			return app("select", b, i), u.Elem()
		case *types.Map:
			_, val, _ := c.mapComps(u)
			return app("select", app("select", c.get(env.st, val), b), i), u.Elem()
		case *types.Pointer:
			if a, ok := u.Elem().Underlying().(*types.Array); ok {
				return app("select", c.inner(c.get(env.st, c.elemComp(a.Elem())), b), i), a.Elem()
			}
		}
		c.specFail("cannot index %s", bt)
	case "slice":
		b, bt := c.tr(e.Args[0], env)
		lo := Term("0")
		if e.Args[1] != nil {
			lo, _ = c.tr(e.Args[1], env)
		}
		if isSlice(bt) {
			hi := app("s-len", b)
			if e.Args[2] != nil {
				hi, _ = c.tr(e.Args[2], env)
			}
			return app("mk-slice", app("s-ref", b), plus(app("s-off", b), lo), minus(hi, lo), minus(app("s-cap", b), lo)), bt
		}
		if isString(bt) {
			hi := app("str-len", b)
			if e.Args[2] != nil {
				hi, _ = c.tr(e.Args[2], env)
			}
			return app("mk-str", app("arrshift", app("str-arr", b), lo), minus(hi, lo)), bt
		}
		c.specFail("cannot slice %s", bt)
	case "un":
		uenv := env
		if e.Name == "!" {
			uenv = env.withGoal(false)
		}
		a, at := c.tr(e.Args[0], uenv)
		switch e.Name {
		case "!":
			return not(a), tBool
		case "-":
			return app("-", a), at
		case "*":
			p, ok := at.Underlying().(*types.Pointer)
			if !ok {
				c.specFail("deref of non-pointer %s", at)
			}
			if isStruct(p.Elem()) {
				return c.loadObject(a, p.Elem(), env.st), p.Elem()
			}
			return app("select", c.get(env.st, c.cellComp(p.Elem())), a), p.Elem()
		}
	case "bin":
		return c.trBin(e, env)
	case "call":
		return c.trCall(e, env)
	case "forall", "exists":
		ne := env.child()
		var binds []string
		var guards []Term
		skolem := env.goal && e.Op == "forall"
		for _, v := range e.Vars {
			ty, err := c.g.parseSpecType(v.Type)
			if err != nil {
				c.specFail("%v", err)
			}
			nm := "q$" + v.Name
			if skolem {
				nm = c.freshConst("sk$"+v.Name, c.sortOf(ty))
			}
			ne.vars[v.Name] = TV{T: nm, Ty: ty}
			binds = append(binds, fmt.Sprintf("(%s %s)", nm, c.sortOf(ty)))
			if isInteger(ty) && ty != tInt {
				guards = append(guards, c.tyInv(nm, ty))
			}
		}
		body, bt := c.tr(e.Args[0], ne)
		if !isBoolean(bt) {
			c.specFail("quantifier body not boolean")
		}
		if skolem {
			if len(guards) > 0 {
				body = implies(and(guards...), body)
			}
			return body, tBool
		}
		if len(guards) > 0 {
			if e.Op == "forall" {
				body = implies(and(guards...), body)
			} else {
				body = and(append(guards, body)...)
			}
		}
		if len(e.Trig) > 0 {
			var pats []string
			for _, tr := range e.Trig {
				var ps []string
				for _, p := range tr {
					t, _ := c.tr(p, ne)
					ps = append(ps, t)
				}
				pats = append(pats, ":pattern ("+strings.Join(ps, " ")+")")
			}
			body = "(! " + body + " " + strings.Join(pats, " ") + ")"
		}
		return fmt.Sprintf("(%s (%s) %s)", e.Op, strings.Join(binds, " "), body), tBool
	}
	c.specFail("cannot translate %s", e)
	return "", nil
}

func isNilType(t types.Type) bool {
	b, ok := t.(*types.Basic)
	return ok && b.Kind() == types.UntypedNil
}

func (c *FnCtx) trBin(e *Expr, env *Env) (Term, types.Type) {
	envA, envB := env, env
	switch e.Name {
	case "&&", "||":
	case "==>":
		envA = env.withGoal(false)
	default:
		envA, envB = env.withGoal(false), env.withGoal(false)
	}
	a, at := c.tr(e.Args[0], envA)
	b, bt := c.tr(e.Args[1], envB)
	switch e.Name {
	case "&&":
		return and(a, b), tBool
	case "||":
		return or(a, b), tBool
	case "==>":
		return implies(a, b), tBool
	case "<==>":
		return eq(a, b), tBool
	case "==", "!=":
		var r Term
		switch {
		case isSlice(at) && isNilType(bt):
			r = eq(app("s-ref", a), "0")
		case isNilType(at) && isSlice(bt):
			r = eq(app("s-ref", b), "0")
		case isString(at) && isString(bt):
			if e.Args[1].Op == "str" && len(e.Args[1].Name) <= 24 {
				r = c.strEqLit(a, e.Args[1].Name)
			} else if e.Args[0].Op == "str" && len(e.Args[0].Name) <= 24 {
				r = c.strEqLit(b, e.Args[0].Name)
			} else {
				r = app("streq", a, b)
			}
		default:
			a, b = c.coerce(a, at, b, bt)
			r = eq(a, b)
		}
		if e.Name == "!=" {
			r = not(r)
		}
		return r, tBool
	case "<", "<=", ">", ">=":
		a, b = c.coerce(a, at, b, bt)
		return app(e.Name, a, b), tBool
	case "+", "-", "*":
		rt := at
		if isFloat(bt) || (isNilType(at)) {
			rt = bt
		}
		if b2, ok := at.(*types.Basic); ok && b2.Kind() == types.UntypedInt {
			rt = bt
		}
		a, b = c.coerce(a, at, b, bt)
		return app(e.Name, a, b), rt
	case "/":
		if isFloat(at) || isFloat(bt) {
			a, b = c.coerce(a, at, b, bt)
			return app("/", a, b), tReal
		}
		return app("godiv", a, b), at
	case "%":
		return app("gorem", a, b), at
	}
	c.specFail("unknown operator %s", e.Name)
	return "", nil
}

func (c *FnCtx) trCall(e *Expr, env *Env) (Term, types.Type) {
	goal := env.goal
	env = env.withGoal(false)
	arg := func(i int) (Term, types.Type) {
		if i >= len(e.Args) {
			c.specFail("%s: missing argument %d", e.Name, i)
		}
		return c.tr(e.Args[i], env)
	}
	switch e.Name {
	case "old":
		if env.oldSt == nil {
			c.specFail("old() not available here")
		}
		ne := env.child()
		ne.st = env.oldSt
		ne.goal = goal
		ne.inOld = true
		return c.tr(e.Args[0], ne)
	case "len":
		a, at := arg(0)
		switch u := at.Underlying().(type) {
		case *types.Slice:
			return app("s-len", a), tInt
		case *types.Basic:
			if isString(at) {
				return app("str-len", a), tInt
			}
		case *types.Map:
			_, _, ln := c.mapComps(u)
			return app("select", c.get(env.st, ln), a), tInt
		case *types.Array:
			return num(u.Len()), tInt
		}
		c.specFail("len of %s", at)
	case "cap":
		a, _ := arg(0)
		return app("s-cap", a), tInt
	case "ite":
		cnd, _ := arg(0)
		a, at := arg(1)
		b, bt := arg(2)
		a, b = c.coerce(a, at, b, bt)
		if b2, ok := at.(*types.Basic); ok && b2.Kind() == types.UntypedInt {
			at = bt
		}
		return ite(cnd, a, b), at
	case "min", "max":
		a, at := arg(0)
		b, _ := arg(1)
		op := "<="
		if e.Name == "max" {
			op = ">="
		}
		return ite(app(op, a, b), a, b), at
	case "base":
		a, at := arg(0)
		if s, ok := at.Underlying().(*types.Slice); ok {
			return c.inner(c.get(env.st, c.elemComp(s.Elem())), app("s-ref", a)), &MathArr{tInt, s.Elem()}
		}
		if isString(at) {
			return app("str-arr", a), &MathArr{tInt, tByte}
		}
		c.specFail("base of %s", at)
	case "view":
		// view(s)[i] == s[i]
		a, at := arg(0)
		if s, ok := at.Underlying().(*types.Slice); ok {
			if c.sortOf(s.Elem()) != "Int" {
				c.specFail("view only for integer element slices")
			}
			return app("arrshift", c.inner(c.get(env.st, c.elemComp(s.Elem())), app("s-ref", a)), app("s-off", a)), &MathArr{tInt, s.Elem()}
		}
		if isString(at) {
			return app("str-arr", a), &MathArr{tInt, tByte}
		}
		c.specFail("view of %s", at)
	case "off":
		a, _ := arg(0)
		return app("s-off", a), tInt
	case "ref":
		a, at := arg(0)
		if isSlice(at) {
			return app("s-ref", a), tInt
		}
		return a, tInt
	case "same":
		a, _ := arg(0)
		b, _ := arg(1)
		return eq(a, b), tBool
	case "has":
		// has(m, k): key present in Go map
		m, mt := arg(0)
		k, _ := arg(1)
		u, ok := mt.Underlying().(*types.Map)
		if !ok {
			c.specFail("has on non-map")
		}
		h, _, _ := c.mapComps(u)
		return and(not(eq(m, "0")), app("select", app("select", c.get(env.st, h), m), k)), tBool
	case "real":
		a, at := arg(0)
		if isFloat(at) {
			return a, tReal
		}
		return app("to_real", a), tReal
	case "int":
		a, at := arg(0)
		if isFloat(at) {
			return app("to_int", a), tInt
		}
		return a, tInt
	case "concat":
		a, _ := arg(0)
		b, _ := arg(1)
		return app("strcat", a, b), tString
	case "asReal":
		a, _ := arg(0)
		return c.unbox(a, tReal), tReal
	case "jsonAlways":
		// jsonAlways("Struct", "Field", "key"): encoding/json always emits this field under this key -
		// decided from the struct tag in the current tree (no omitempty/omitzero, not "-", exported)
		if len(e.Args) != 3 || e.Args[0].Op != "str" || e.Args[1].Op != "str" || e.Args[2].Op != "str" {
			c.specFail("jsonAlways(\"Struct\", \"Field\", \"key\")")
		}
		ty, err := c.g.parseSpecType(e.Args[0].Name)
		if err != nil {
			c.specFail("%v", err)
		}
		st, ok := ty.Underlying().(*types.Struct)
		if !ok {
			c.specFail("jsonAlways: %s is not a struct", e.Args[0].Name)
		}
		res := "false"
		for i := 0; i < st.NumFields(); i++ {
			f := st.Field(i)
			if f.Name() != e.Args[1].Name || !f.Exported() {
				continue
			}
			tag := reflect.StructTag(st.Tag(i)).Get("json")
			parts := strings.Split(tag, ",")
			name := parts[0]
			if name == "" {
				name = f.Name()
			}
			always := tag != "-"
			for _, o := range parts[1:] {
				if o == "omitempty" || o == "omitzero" {
					always = false
				}
			}
			if always && name == e.Args[2].Name {
				res = "true"
			}
		}
		return res, tBool
	case "splice":
		// splice(a, n, b, m): a with b[0..m) written at positions n..n+m (integer-valued ghost maps)
		a, at := arg(0)
		n, _ := arg(1)
		b, _ := arg(2)
		m, _ := arg(3)
		return app("splice", a, n, b, m), at
	case "shift":
		// shift(m, k)[i] == m[i + k] for integer-valued ghost maps
		m, mt := arg(0)
		k, _ := arg(1)
		return app("arrshift", m, k), mt
	case "after":
		// after("callee", site, expr): expr evaluated in the state right after that call returned
		if len(e.Args) != 3 || e.Args[0].Op != "str" || e.Args[1].Op != "int" {
			c.specFail("after(\"callee\", site, expr)")
		}
		site := 0
		fmt.Sscan(e.Args[1].Name, &site)
		sites := c.callRes[e.Args[0].Name]
		if site >= len(sites) {
			c.specFail("after: %s has %d call sites here", e.Args[0].Name, len(sites))
		}
		ne := env.child()
		ne.st = sites[site].post
		return c.tr(e.Args[2], ne)
	case "result_of":
		// result_of("callee", site, i): the i-th result of the site-th call (SSA order) of callee in this
		// function. Meaningful only on paths that went through that call: guard it (e.g. err == nil ==> ...).
		if len(e.Args) < 1 || e.Args[0].Op != "str" {
			c.specFail("result_of(\"callee\", site, i)")
		}
		site, ri := 0, 0
		if len(e.Args) > 1 && e.Args[1].Op == "int" {
			fmt.Sscan(e.Args[1].Name, &site)
		}
		if len(e.Args) > 2 && e.Args[2].Op == "int" {
			fmt.Sscan(e.Args[2].Name, &ri)
		}
		sites := c.callRes[e.Args[0].Name]
		if site >= len(sites) || ri >= len(sites[site].res) {
			// the call has not happened (yet) at this point: its "result" is an arbitrary value, so
			// nothing can be concluded from it and an assertion that needs it fails
			if fn := c.g.funcs[e.Args[0].Name]; fn != nil && ri < fn.Signature.Results().Len() {
				ty := fn.Signature.Results().At(ri).Type()
				return c.freshConst("nocall", c.sortOf(ty)), ty
			}
			c.specFail("result_of: %s has %d call sites here", e.Args[0].Name, len(sites))
		}
		return sites[site].res[ri], sites[site].types[ri]
	case "pkgvar":
		// pkgvar("io.EOF"): value of a package-level variable of another package
		if len(e.Args) != 1 || e.Args[0].Op != "str" {
			c.specFail("pkgvar(\"pkg.Name\")")
		}
		parts := strings.SplitN(e.Args[0].Name, ".", 2)
		if len(parts) != 2 {
			c.specFail("pkgvar(\"pkg.Name\")")
		}
		for _, p := range c.g.allPkgs {
			if p.Name() == parts[0] {
				if o := p.Scope().Lookup(parts[1]); o != nil {
					if v, ok := o.(*types.Var); ok {
						return c.extGlobal(parts[0]+"."+parts[1], v.Type()), v.Type()
					}
				}
			}
		}
		c.specFail("unknown package variable %s", e.Args[0].Name)
	case "upd":
		m, mt := arg(0)
		k, _ := arg(1)
		v, _ := arg(2)
		return app("store", m, k, v), mt
	case "heap":
		if len(e.Args) != 1 || e.Args[0].Op != "str" {
			c.specFail("heap(\"elemtype\")")
		}
		ty, err := c.g.parseSpecType(e.Args[0].Name)
		if err != nil {
			c.specFail("%v", err)
		}
		return c.get(env.st, c.elemComp(ty)), &MathArr{tInt, &MathArr{tInt, ty}}
	case "alloc":
		return c.get(env.st, c.comp("$alloc", "Int")), tInt
	case "unboxTo":
		// unboxTo(x, "*T"): the pointer stored in interface value x (meaningful when typeis(x, "*T"))
		a, _ := arg(0)
		if len(e.Args) < 2 || e.Args[1].Op != "str" {
			c.specFail("unboxTo(x, \"T\")")
		}
		ty, err := c.g.parseSpecType(e.Args[1].Name)
		if err != nil {
			c.specFail("%v", err)
		}
		return c.unbox(a, ty), ty
	case "guarded":
		// guarded(): only in "before send:/recv:<chan> assert" - the operation is an arm of a select that
		// has a default case or an arm receiving from a Done() channel (decided from the SSA form)
		tv, ok := env.vars["$guarded"]
		if !ok {
			c.specFail("guarded() is only meaningful in a hint at a channel operation")
		}
		return tv.T, tBool
	case "boxOf":
		// boxOf(x): x as an interface value (what the code gets from a conversion to error / any)
		a, at := arg(0)
		return c.box(a, at), types.Universe.Lookup("any").Type()
	case "asString":
		a, _ := arg(0)
		return c.unbox(a, tString), tString
	case "asInt":
		a, _ := arg(0)
		return c.unbox(a, tInt), tInt
	case "typeis":
		// typeis(x, "T")
		a, _ := arg(0)
		if len(e.Args) < 2 || e.Args[1].Op != "str" {
			c.specFail("typeis(x, \"T\")")
		}
		ty, err := c.g.parseSpecType(e.Args[1].Name)
		if err != nil {
			c.specFail("%v", err)
		}
		return and(not(eq(a, "0")), eq(app("typeof", a), num(int64(c.tt.typeID(ty))))), tBool
	}
	pf, ok := c.g.specs.Pures[e.Name]
	if !ok {
		c.specFail("unknown spec function %q", e.Name)
	}
	if len(e.Args) != len(pf.Params) {
		c.specFail("%s expects %d arguments", e.Name, len(pf.Params))
	}
	rt, err := c.g.parseSpecType(pf.Ret)
	if err != nil {
		c.specFail("%s: %v", pf.Src, err)
	}
	if pf.Body != nil {
		ne := &Env{vars: map[string]TV{}, st: env.st, oldSt: env.oldSt, goal: goal}
		for i, p := range pf.Params {
			a, at := arg(i)
			pt, err := c.g.parseSpecType(p.Type)
			if err != nil {
				c.specFail("%s: %v", pf.Src, err)
			}
			if isFloat(pt) && isInteger(at) {
				a = app("to_real", a)
			}
			ne.vars[p.Name] = TV{T: a, Ty: pt}
		}
		t, _ := c.tr(pf.Body, ne)
		return t, rt
	}
	// uninterpreted (rec) function
	var sorts []string
	var args []Term
	for i, p := range pf.Params {
		pt, err := c.g.parseSpecType(p.Type)
		if err != nil {
			c.specFail("%s: %v", pf.Src, err)
		}
		sorts = append(sorts, c.sortOf(pt))
		a, at := arg(i)
		if isFloat(pt) && isInteger(at) {
			a = app("to_real", a)
		}
		args = append(args, a)
	}
	name := "spec$" + e.Name
	c.declareFun(name, sorts, c.sortOf(rt))
	c.pureDecl[e.Name] = true
	if len(args) == 0 {
		return name, rt
	}
	return app(name, args...), rt
}

// specHeapWF: a reference or slice read from the heap in a specification is well-formed with
// respect to the allocation counter of the state it is read in (the same fact the code gets at
// every load). Only closed terms qualify; the fact is about fixed constants, so it is global.
func (c *FnCtx) specHeapWF(t Term, ty types.Type, st *State) {
	if strings.Contains(t, "q$") {
		return
	}
	switch ty.Underlying().(type) {
	case *types.Slice:
		key := "wf|" + t
		if c.specWFDone[key] {
			return
		}
		c.specWFDone[key] = true
		c.axioms = append(c.axioms, app("slice-wf", t, c.get(st, c.comp("$alloc", "Int"))))
	case *types.Pointer, *types.Map:
		key := "wf|" + t
		if c.specWFDone[key] {
			return
		}
		c.specWFDone[key] = true
		c.axioms = append(c.axioms, app("<=", t, c.get(st, c.comp("$alloc", "Int"))))
	}
}

// exprMentions reports whether the expression mentions any of the names.
func exprMentions(e *Expr, names map[string]bool) bool {
	if e == nil {
		return false
	}
	if (e.Op == "id" || e.Op == "call") && names[e.Name] {
		return true
	}
	for _, a := range e.Args {
		if exprMentions(a, names) {
			return true
		}
	}
	for _, t := range e.Trig {
		for _, p := range t {
			if exprMentions(p, names) {
				return true
			}
		}
	}
	return false
}

func collectCalls(e *Expr, out map[string]bool) {
	if e == nil {
		return
	}
	if e.Op == "call" {
		out[e.Name] = true
	}
	for _, a := range e.Args {
		collectCalls(a, out)
	}
}
