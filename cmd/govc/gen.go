package main

import (
	"bytes"
	"fmt"
	"go/ast"
	"go/printer"
	"go/token"
	"go/types"
	"sort"
	"strings"

	"golang.org/x/tools/go/ast/astutil"
	"golang.org/x/tools/go/packages"
	"golang.org/x/tools/go/ssa"
	"golang.org/x/tools/go/ssa/ssautil"
)

type Gen struct {
	prog    *ssa.Program
	pkg     *ssa.Package
	tpkg    *types.Package
	allPkgs []*types.Package
	specs   *Specs
	fset    *token.FileSet
	files   []*ast.File
	funcs   map[string]*ssa.Function
	repo    string
	pure    map[string]bool // inferred effect-free package functions (purity.go)
	// package-level variables that no function of the package other than the initialisers ever
	// stores to or takes the address of (error sentinels, compiled patterns, byte-string constants):
	// they hold the same value at every program point after initialisation
	constGlobals map[*ssa.Global]bool
}

func LoadProgram(repo string, tags string) (*Gen, error) {
	cfg := &packages.Config{Mode: packages.LoadAllSyntax, Dir: repo}
	if tags != "" {
		cfg.BuildFlags = []string{"-tags", tags}
	}
	pkgs, err := packages.Load(cfg, "./trzsz")
	if err != nil {
		return nil, err
	}
	if len(pkgs) != 1 {
		return nil, fmt.Errorf("expected one package, got %d", len(pkgs))
	}
	if len(pkgs[0].Errors) > 0 {
		return nil, fmt.Errorf("package errors: %v", pkgs[0].Errors)
	}
	prog, spkgs := ssautil.AllPackages(pkgs, ssa.GlobalDebug)
	prog.Build()
	g := &Gen{prog: prog, pkg: spkgs[0], tpkg: pkgs[0].Types, fset: pkgs[0].Fset, files: pkgs[0].Syntax,
		funcs: map[string]*ssa.Function{}, repo: repo}
	seen := map[*types.Package]bool{}
	packages.Visit(pkgs, nil, func(p *packages.Package) {
		if p.Types != nil && !seen[p.Types] {
			seen[p.Types] = true
			g.allPkgs = append(g.allPkgs, p.Types)
		}
	})
	var addFn func(f *ssa.Function)
	addFn = func(f *ssa.Function) {
		if f == nil || f.Blocks == nil {
			return
		}
		g.funcs[g.fnName(f)] = f
		for _, a := range f.AnonFuncs {
			addFn(a)
		}
	}
	for _, m := range g.pkg.Members {
		switch m := m.(type) {
		case *ssa.Function:
			addFn(m)
		case *ssa.Type:
			for _, t := range []types.Type{m.Type(), types.NewPointer(m.Type())} {
				ms := prog.MethodSets.MethodSet(t)
				for i := 0; i < ms.Len(); i++ {
					f := prog.MethodValue(ms.At(i))
					if f != nil && f.Pkg == g.pkg && f.Synthetic == "" {
						addFn(f)
					}
				}
			}
		}
	}
	g.constGlobals = map[*ssa.Global]bool{}
	for _, m := range g.pkg.Members {
		if gl, ok := m.(*ssa.Global); ok {
			g.constGlobals[gl] = true
		}
	}
	for _, f := range g.funcs {
		root := f
		for root.Parent() != nil {
			root = root.Parent()
		}
		if root.Name() == "init" || strings.HasPrefix(root.Name(), "init#") {
			continue
		}
		for _, b := range f.Blocks {
			for _, ins := range b.Instrs {
				if u, ok := ins.(*ssa.UnOp); ok && u.Op == token.MUL {
					continue // a plain read
				}
				if _, ok := ins.(*ssa.DebugRef); ok {
					continue
				}
				for _, op := range ins.Operands(nil) {
					if gl, ok := (*op).(*ssa.Global); ok {
						delete(g.constGlobals, gl)
					}
				}
			}
		}
	}
	return g, nil
}

func recvTypeName(t types.Type) string {
	if p, ok := t.(*types.Pointer); ok {
		t = p.Elem()
	}
	if n, ok := t.(*types.Named); ok {
		return n.Obj().Name()
	}
	return sanitize(t.String())
}

func (g *Gen) fnName(f *ssa.Function) string {
	if f.Parent() != nil {
		return g.fnName(f.Parent()) + strings.TrimPrefix(f.Name(), f.Parent().Name())
	}
	name := f.Name()
	if f.Signature.Recv() != nil {
		name = recvTypeName(f.Signature.Recv().Type()) + "." + name
	}
	if f.Pkg != nil && f.Pkg != g.pkg {
		name = f.Pkg.Pkg.Name() + "." + name
	} else if f.Pkg == nil && f.Object() != nil && f.Object().Pkg() != nil && f.Object().Pkg() != g.tpkg {
		name = f.Object().Pkg().Name() + "." + name
	}
	return name
}

// exprTextAt returns normalised source text of the smallest expression of the
// wanted kind enclosing pos.
func (g *Gen) exprTextAt(pos token.Pos, want string) string {
	if !pos.IsValid() {
		return ""
	}
	for _, f := range g.files {
		if f.Pos() <= pos && pos < f.End() {
			path, _ := astutil.PathEnclosingInterval(f, pos, pos)
			for _, n := range path {
				ok := false
				switch n.(type) {
				case *ast.IndexExpr:
					ok = want == "index"
				case *ast.SliceExpr:
					ok = want == "slice"
				case *ast.CallExpr:
					ok = want == "call" || want == "make"
				case *ast.BinaryExpr:
					ok = want == "div"
				case *ast.TypeAssertExpr:
					ok = want == "typeassert"
				case *ast.StarExpr, *ast.SelectorExpr:
					ok = want == "nil"
				case *ast.AssignStmt:
					ok = want == "div" || want == "index"
				}
				if ok {
					var b bytes.Buffer
					printer.Fprint(&b, g.fset, n)
					s := strings.Join(strings.Fields(b.String()), " ")
					if len(s) > 60 {
						s = s[:60]
					}
					return s
				}
			}
		}
	}
	return ""
}

func (g *Gen) posStr(pos token.Pos) string {
	if !pos.IsValid() {
		return ""
	}
	p := g.fset.Position(pos)
	fn := p.Filename
	if i := strings.LastIndex(fn, "/"); i >= 0 {
		fn = fn[i+1:]
	}
	return fmt.Sprintf("%s:%d", fn, p.Line)
}

func (g *Gen) sortedFuncNames() []string {
	var ns []string
	for n := range g.funcs {
		ns = append(ns, n)
	}
	sort.Strings(ns)
	return ns
}
