package main

import (
	"bufio"
	"fmt"
	"os"
	"strconv"
	"strings"
)

type Clause struct {
	E    *Expr
	Text string
	Src  string   // file:line
	Tags []string // property ids this clause belongs to ("[C09,C10] expr"); empty = shared by all
}

type LoopSpec struct {
	Ord        int
	Invariants []*Clause
	Decreases  *Clause
	Assigns    []*Clause
	HasAssigns bool
}

// GhostVar: "ghostvar name type = init".
type GhostVar struct {
	Name, Type string
	Init       *Clause
}

// GhostSet: "after <callee>[#site] set name = expr".
type GhostSet struct {
	Name string
	E    *Clause
}

type FuncSpec struct {
	Name       string
	Trusted    bool
	Pure       bool // assigns nothing
	Ghost      []VarDecl
	Requires   []*Clause
	Ensures    []*Clause
	Assigns    []*Clause
	AssignsAll bool
	HasAssigns bool
	Loops      map[int]*LoopSpec
	Src        string
	File       string
	Panics     bool // the requires clauses are conditions under which the callee panics (safety obligations)
	ArgsOnly   bool // writes only memory directly pointed to by its arguments (and fresh memory)
	NoPanic    bool // "nopanic": callee never panics when its preconditions hold (trusted only)
	Nilable    map[string]bool
	Hints      map[string][]*Clause // callee name -> facts asserted (then assumed) before each call to it
	GhostVars  []*GhostVar           // function-local ghost variables (history the code does not keep)
	Sets       map[string][]*GhostSet // callee name[#site] -> ghost assignments made right after that call returns
}

type PureFn struct {
	Name   string
	Params []VarDecl
	Ret    string
	Body   *Expr // nil for rec (uninterpreted)
	Src    string
}

type Axiom struct {
	Name string
	E    *Expr
	Src  string
}

type Lemma struct {
	Name string
	E    *Expr
	Src  string
}

type GlobalDecl struct {
	Name string
	Type string
}

type Specs struct {
	Funcs    map[string]*FuncSpec
	Pures    map[string]*PureFn
	Axioms   []*Axiom
	Lemmas   []*Lemma
	Globals  []*GlobalDecl
	PurePkgs map[string]bool
	PureVars  map[string]bool // package-level func variables whose calls are assumed effect-free
	ZeroGhost [][3]string // (type name, ghost map, value): the ghost entry of a freshly zeroed value of that type
	Stable   map[string]bool // Struct.field of sync/atomic type assumed not to change concurrently during one call
	Files    []string
}

func NewSpecs() *Specs {
	return &Specs{Funcs: map[string]*FuncSpec{}, Pures: map[string]*PureFn{}, PurePkgs: map[string]bool{}, Stable: map[string]bool{}, PureVars: map[string]bool{}}
}

func parseVarDecls(s string) ([]VarDecl, error) {
	var out []VarDecl
	s = strings.TrimSpace(s)
	if s == "" {
		return nil, nil
	}
	depth := 0
	start := 0
	var parts []string
	for i := 0; i < len(s); i++ {
		switch s[i] {
		case '[', '(':
			depth++
		case ']', ')':
			depth--
		case ',':
			if depth == 0 {
				parts = append(parts, s[start:i])
				start = i + 1
			}
		}
	}
	parts = append(parts, s[start:])
	for _, p := range parts {
		p = strings.TrimSpace(p)
		i := strings.IndexAny(p, " \t")
		if i < 0 {
			return nil, fmt.Errorf("bad declaration %q", p)
		}
		out = append(out, VarDecl{p[:i], strings.ReplaceAll(strings.TrimSpace(p[i:]), " ", "")})
	}
	return out, nil
}

func (sp *Specs) LoadFile(path string, stripPrefix string) error {
	f, err := os.Open(path)
	if err != nil {
		return err
	}
	defer f.Close()
	sp.Files = append(sp.Files, path)
	sc := bufio.NewScanner(f)
	sc.Buffer(make([]byte, 1<<20), 1<<20)
	var cur *FuncSpec
	var curLoop *LoopSpec
	lineNo := 0
	pending := ""
	pendingLine := 0
	for sc.Scan() {
		lineNo++
		line := sc.Text()
		if stripPrefix != "" {
			t := strings.TrimSpace(line)
			if !strings.HasPrefix(t, stripPrefix) {
				continue
			}
			line = strings.TrimPrefix(t, stripPrefix)
		}
		line = strings.TrimSpace(line)
		if line == "" || strings.HasPrefix(line, "#") {
			continue
		}
		if strings.HasSuffix(line, "\\") {
			if pending == "" {
				pendingLine = lineNo
			}
			pending += strings.TrimSuffix(line, "\\") + " "
			continue
		}
		ln := lineNo
		if pending != "" {
			line = pending + line
			ln = pendingLine
			pending = ""
		}
		src := fmt.Sprintf("%s:%d", path, ln)
		kw := line
		rest := ""
		if i := strings.IndexAny(line, " \t"); i >= 0 {
			kw, rest = line[:i], strings.TrimSpace(line[i:])
		}
		mkClause := func(text string) (*Clause, error) {
			var tags []string
			text = strings.TrimSpace(text)
			if strings.HasPrefix(text, "[C") {
				if k := strings.Index(text, "]"); k > 0 {
					for _, t := range strings.Split(text[1:k], ",") {
						tags = append(tags, strings.TrimSpace(t))
					}
					text = strings.TrimSpace(text[k+1:])
				}
			}
			e, err := ParseExpr(text)
			if err != nil {
				return nil, fmt.Errorf("%s: %v", src, err)
			}
			return &Clause{E: e, Text: text, Src: src, Tags: tags}, nil
		}
		switch kw {
		case "func":
			fs := strings.Fields(rest)
			if len(fs) == 0 {
				return fmt.Errorf("%s: func needs a name", src)
			}
			if _, dup := sp.Funcs[fs[0]]; dup {
				return fmt.Errorf("%s: duplicate contract for %s", src, fs[0])
			}
			cur = &FuncSpec{Name: fs[0], Loops: map[int]*LoopSpec{}, Src: src, File: path, Nilable: map[string]bool{}, Hints: map[string][]*Clause{}, Sets: map[string][]*GhostSet{}}
			for _, a := range fs[1:] {
				switch a {
				case "trusted":
					cur.Trusted = true
				case "pure":
					cur.Pure = true
					cur.HasAssigns = true
				case "nopanic":
					cur.NoPanic = true
				case "panics":
					cur.Panics = true
				case "argsonly":
					cur.ArgsOnly = true
					cur.HasAssigns = true
				default:
					return fmt.Errorf("%s: unknown func attribute %q", src, a)
				}
			}
			sp.Funcs[cur.Name] = cur
			curLoop = nil
		case "end":
			cur, curLoop = nil, nil
		case "ghost":
			if cur == nil {
				return fmt.Errorf("%s: ghost outside func", src)
			}
			ds, err := parseVarDecls(rest)
			if err != nil {
				return fmt.Errorf("%s: %v", src, err)
			}
			cur.Ghost = append(cur.Ghost, ds...)
		case "before":
			// before <callee> assert <expr>
			if cur == nil {
				return fmt.Errorf("%s: before outside func", src)
			}
			fs := strings.Fields(rest)
			if len(fs) < 3 || fs[1] != "assert" {
				return fmt.Errorf("%s: before <callee> assert <expr>", src)
			}
			text := strings.TrimSpace(strings.TrimPrefix(strings.TrimSpace(strings.TrimPrefix(rest, fs[0])), "assert"))
			c, err := mkClause(text)
			if err != nil {
				return err
			}
			cur.Hints[fs[0]] = append(cur.Hints[fs[0]], c)
		case "ghostvar":
			// ghostvar <name> <type> = <expr>
			if cur == nil {
				return fmt.Errorf("%s: ghostvar outside func", src)
			}
			eqi := strings.Index(rest, "=")
			if eqi < 0 {
				// no initial value: arbitrary at entry
				head := strings.Fields(rest)
				if len(head) != 2 {
					return fmt.Errorf("%s: ghostvar <name> <type> [= <expr>]", src)
				}
				cur.GhostVars = append(cur.GhostVars, &GhostVar{Name: head[0], Type: head[1]})
				break
			}
			head := strings.Fields(rest[:eqi])
			if len(head) != 2 {
				return fmt.Errorf("%s: ghostvar <name> <type> [= <expr>]", src)
			}
			c, err := mkClause(strings.TrimSpace(rest[eqi+1:]))
			if err != nil {
				return err
			}
			cur.GhostVars = append(cur.GhostVars, &GhostVar{Name: head[0], Type: head[1], Init: c})
		case "after":
			// after <callee>[#site] set <name> = <expr>
			if cur == nil {
				return fmt.Errorf("%s: after outside func", src)
			}
			fs := strings.Fields(rest)
			if len(fs) < 5 || fs[1] != "set" || fs[3] != "=" {
				return fmt.Errorf("%s: after <callee> set <name> = <expr>", src)
			}
			text := strings.TrimSpace(rest[strings.Index(rest, "=")+1:])
			c, err := mkClause(text)
			if err != nil {
				return err
			}
			cur.Sets[fs[0]] = append(cur.Sets[fs[0]], &GhostSet{Name: fs[2], E: c})
		case "nilable":
			if cur == nil {
				return fmt.Errorf("%s: nilable outside func", src)
			}
			for _, n := range strings.Split(rest, ",") {
				cur.Nilable[strings.TrimSpace(n)] = true
			}
		case "requires", "ensures":
			if cur == nil {
				return fmt.Errorf("%s: %s outside func", src, kw)
			}
			c, err := mkClause(rest)
			if err != nil {
				return err
			}
			if kw == "requires" {
				cur.Requires = append(cur.Requires, c)
			} else {
				cur.Ensures = append(cur.Ensures, c)
			}
		case "assigns":
			if cur == nil {
				return fmt.Errorf("%s: assigns outside func", src)
			}
			var list *[]*Clause
			if curLoop != nil {
				curLoop.HasAssigns = true
				list = &curLoop.Assigns
			} else {
				cur.HasAssigns = true
				list = &cur.Assigns
			}
			if rest == "nothing" {
				break
			}
			if rest == "*" {
				if curLoop == nil {
					cur.AssignsAll = true
				}
				break
			}
			for _, part := range splitTop(rest) {
				c, err := mkClause(part)
				if err != nil {
					return err
				}
				*list = append(*list, c)
			}
		case "loop":
			if cur == nil {
				return fmt.Errorf("%s: loop outside func", src)
			}
			n, err := strconv.Atoi(rest)
			if err != nil {
				return fmt.Errorf("%s: loop ordinal: %v", src, err)
			}
			if prev, ok := cur.Loops[n]; ok {
				curLoop = prev // a second "loop n" block of the same function adds to the first
			} else {
				curLoop = &LoopSpec{Ord: n}
				cur.Loops[n] = curLoop
			}
		case "invariant":
			if curLoop == nil {
				return fmt.Errorf("%s: invariant outside loop", src)
			}
			c, err := mkClause(rest)
			if err != nil {
				return err
			}
			curLoop.Invariants = append(curLoop.Invariants, c)
		case "decreases":
			if curLoop == nil {
				return fmt.Errorf("%s: decreases outside loop", src)
			}
			c, err := mkClause(rest)
			if err != nil {
				return err
			}
			curLoop.Decreases = c
		case "pure", "rec":
			cur, curLoop = nil, nil
			// NAME(params) RET [= body]
			i := strings.Index(rest, "(")
			if i < 0 {
				return fmt.Errorf("%s: bad %s declaration", src, kw)
			}
			name := strings.TrimSpace(rest[:i])
			depth := 0
			j := i
			for ; j < len(rest); j++ {
				if rest[j] == '(' {
					depth++
				}
				if rest[j] == ')' {
					depth--
					if depth == 0 {
						break
					}
				}
			}
			params, err := parseVarDecls(rest[i+1 : j])
			if err != nil {
				return fmt.Errorf("%s: %v", src, err)
			}
			tail := strings.TrimSpace(rest[j+1:])
			pf := &PureFn{Name: name, Params: params, Src: src}
			if kw == "pure" {
				k := strings.Index(tail, "=")
				if k < 0 {
					return fmt.Errorf("%s: pure needs a body", src)
				}
				pf.Ret = strings.ReplaceAll(strings.TrimSpace(tail[:k]), " ", "")
				body, err := ParseExpr(strings.TrimSpace(tail[k+1:]))
				if err != nil {
					return fmt.Errorf("%s: %v", src, err)
				}
				pf.Body = body
			} else {
				pf.Ret = strings.ReplaceAll(tail, " ", "")
			}
			if _, dup := sp.Pures[name]; dup {
				return fmt.Errorf("%s: duplicate spec function %s", src, name)
			}
			sp.Pures[name] = pf
		case "axiom", "lemma":
			cur, curLoop = nil, nil
			i := strings.Index(rest, ":")
			if i < 0 {
				return fmt.Errorf("%s: %s needs NAME: expr", src, kw)
			}
			e, err := ParseExpr(strings.TrimSpace(rest[i+1:]))
			if err != nil {
				return fmt.Errorf("%s: %v", src, err)
			}
			if kw == "axiom" {
				sp.Axioms = append(sp.Axioms, &Axiom{strings.TrimSpace(rest[:i]), e, src})
			} else {
				sp.Lemmas = append(sp.Lemmas, &Lemma{strings.TrimSpace(rest[:i]), e, src})
			}
		case "global":
			cur, curLoop = nil, nil
			fs := strings.Fields(rest)
			if len(fs) != 2 {
				return fmt.Errorf("%s: global NAME TYPE", src)
			}
			sp.Globals = append(sp.Globals, &GlobalDecl{fs[0], fs[1]})
		case "purevar":
			for _, p := range strings.Fields(rest) {
				sp.PureVars[p] = true
			}
		case "zeroghost":
			fs := strings.Fields(rest)
			if len(fs) != 3 {
				return fmt.Errorf("%s: zeroghost <type> <ghost map> <value>", src)
			}
			sp.ZeroGhost = append(sp.ZeroGhost, [3]string{fs[0], fs[1], fs[2]})
		case "stable":
			for _, p := range strings.Fields(rest) {
				sp.Stable[p] = true
			}
		case "purepkg":
			for _, p := range strings.Fields(rest) {
				sp.PurePkgs[p] = true
			}
		default:
			return fmt.Errorf("%s: unknown keyword %q", src, kw)
		}
	}
	return sc.Err()
}

func splitTop(s string) []string {
	var parts []string
	depth := 0
	start := 0
	for i := 0; i < len(s); i++ {
		switch s[i] {
		case '[', '(':
			depth++
		case ']', ')':
			depth--
		case ',':
			if depth == 0 {
				parts = append(parts, strings.TrimSpace(s[start:i]))
				start = i + 1
			}
		}
	}
	parts = append(parts, strings.TrimSpace(s[start:]))
	return parts
}
