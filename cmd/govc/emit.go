package main

import (
	"fmt"
	"strings"
)

const preludeCore = `(set-option :produce-models true)
(set-logic ALL)
(declare-datatypes ((Slice 0)) (((mk-slice (s-ref Int) (s-off Int) (s-len Int) (s-cap Int)))))
(declare-datatypes ((Str 0)) (((mk-str (str-arr (Array Int Int)) (str-len Int)))))
(define-fun godiv ((x Int) (y Int)) Int (ite (>= x 0) (ite (> y 0) (div x y) (- (div x (- y)))) (ite (> y 0) (- (div (- x) y)) (div (- x) (- y)))))
(define-fun gorem ((x Int) (y Int)) Int (- x (* y (godiv x y))))
(define-fun slice-wf ((s Slice) (a Int)) Bool (and (<= 0 (s-ref s)) (<= (s-ref s) a) (<= 0 (s-off s)) (<= 0 (s-len s)) (<= (s-len s) (s-cap s)) (<= (+ (s-off s) (s-cap s)) 4611686018427387904) (=> (= (s-ref s) 0) (and (= (s-off s) 0) (= (s-cap s) 0)))))
(declare-fun typeof (Int) Int)
(declare-fun at (Int Int) Int)
(assert (forall ((o Int) (i Int)) (! (= (at o i) (+ o i)) :pattern ((at o i)))))
`

// optional prelude parts, included only when the symbol is used (keeps queries quantifier-free where possible)
var preludeParts = []struct{ sym, text string }{
	{"(sub ", `(declare-fun sub (Int Int) Int)
(declare-fun sub-par (Int) Int)
(declare-fun sub-idx (Int) Int)
(assert (forall ((r Int) (k Int)) (! (and (= (sub-par (sub r k)) r) (= (sub-idx (sub r k)) k) (=> (not (= r 0)) (< (sub r k) 0))) :pattern ((sub r k)))))
`},
	{"(splice ", `(declare-fun splice ((Array Int Int) Int (Array Int Int) Int) (Array Int Int))
(assert (forall ((a (Array Int Int)) (n Int) (b (Array Int Int)) (m Int) (i Int)) (! (= (select (splice a n b m) i) (ite (and (<= n i) (< i (+ n m))) (select b (- i n)) (select a i))) :pattern ((select (splice a n b m) i)))))
`},
	{"(arrshift ", `(declare-fun arrshift ((Array Int Int) Int) (Array Int Int))
(assert (forall ((a (Array Int Int)) (k Int) (i Int)) (! (= (select (arrshift a k) i) (select a (at k i))) :pattern ((select (arrshift a k) i)))))
`},
	{"(streq ", `(define-fun streq ((a Str) (b Str)) Bool (and (= (str-len a) (str-len b)) (forall ((i Int)) (=> (and (<= 0 i) (< i (str-len a))) (= (select (str-arr a) i) (select (str-arr b) i))))))
`},
	{"(strcat ", `(declare-fun strcat (Str Str) Str)
(assert (forall ((a Str) (b Str)) (! (= (str-len (strcat a b)) (+ (str-len a) (str-len b))) :pattern ((strcat a b)))))
(assert (forall ((a Str) (b Str) (i Int)) (! (=> (and (<= 0 i) (< i (str-len a))) (= (select (str-arr (strcat a b)) i) (select (str-arr a) i))) :pattern ((select (str-arr (strcat a b)) i)))))
(assert (forall ((a Str) (b Str) (i Int)) (! (=> (and (<= (str-len a) i) (< i (+ (str-len a) (str-len b)))) (= (select (str-arr (strcat a b)) i) (select (str-arr b) (- i (str-len a))))) :pattern ((select (str-arr (strcat a b)) i)))))
`},
	{"(concat-def ", `(define-fun concat-def ((r Str) (a Str) (b Str)) Bool (and (forall ((i Int)) (! (=> (and (<= 0 i) (< i (str-len a))) (= (select (str-arr r) i) (select (str-arr a) i))) :pattern ((select (str-arr r) i)))) (forall ((i Int)) (! (=> (and (<= 0 i) (< i (str-len b))) (= (select (str-arr r) (+ (str-len a) i)) (select (str-arr b) i))) :pattern ((select (str-arr b) i))))))
`},
	{"(bytes-in-range ", `(define-fun bytes-in-range ((a (Array Int Int)) (n Int)) Bool (forall ((i Int)) (! (and (<= 0 (select a i)) (<= (select a i) 255)) :pattern ((select a i)))))
`},
}

func (c *FnCtx) fold(items []Item, rest Term, defs *[]string) Term {
	// right fold with assumption grouping. Active obligations are goals (phi AND rest),
	// inactive ones are assumptions (phi => rest); no formula occurs in both polarities.
	out := rest
	i := len(items) - 1
	for i >= 0 {
		it := items[i]
		if it.Assert && it.Ob.Cover {
			// reachability probe: active -> "false" here; inactive -> transparent
			if c.active[it.Ob] {
				out = "false"
			}
			i--
			continue
		}
		if it.Assert {
			name := fmt.Sprintf("a!%d", len(*defs))
			body := it.T
			if c.active[it.Ob] && it.G != "" {
				body = it.G
			}
			*defs = append(*defs, fmt.Sprintf("(define-fun %s () Bool %s)", name, body))
			if c.active[it.Ob] {
				out = and(name, out)
			} else {
				out = implies(name, out)
			}
			i--
			continue
		}
		var group []Term
		for i >= 0 && !items[i].Assert {
			group = append([]Term{items[i].T}, group...)
			i--
		}
		out = implies(and(group...), out)
	}
	return out
}

func okName(b *BlockVC) string { return "ok$" + b.name }



func (c *FnCtx) edgeFormula(e *EdgeVC) Term {
	rest := "true"
	if !e.back {
		rest = okName(e.to)
	}
	return c.fold(e.items, rest, c.curDefs)
}

// includeAxioms translates the spec axioms that mention declared spec functions (fixpoint).
func (c *FnCtx) includeAxioms() []string {
	var out []string
	done := map[*Axiom]bool{}
	for changed := true; changed; {
		changed = false
		for _, ax := range c.g.specs.Axioms {
			if done[ax] {
				continue
			}
			calls := map[string]bool{}
			collectCalls(ax.E, calls)
			use := false
			hasRec := false
			for n := range calls {
				if pf, ok := c.g.specs.Pures[n]; ok && pf.Body == nil {
					hasRec = true
				}
				if c.pureDecl[n] {
					use = true
				}
			}
			if !hasRec {
				// a fact about package variables: relevant once the query mentions one of them
				for _, v := range pkgvarArgs(ax.E) {
					if c.extGlobals[v] {
						use = true
					}
				}
			}
			if !use {
				continue
			}
			done[ax] = true
			changed = true
			env := &Env{vars: map[string]TV{}, st: &State{m: map[string]Term{}, havoc: true}}
			cl := &Clause{E: ax.E, Text: ax.Name, Src: ax.Src}
			t, err := c.trClause(cl, env)
			if err != nil {
				panic(unsupported(err.Error()))
			}
			out = append(out, "; axiom "+ax.Name, "(assert "+t+")")
			c.trusted["axiom "+ax.Name] = true
		}
	}
	return out
}

// Emit returns the SMT text shared by all queries of this function.
func (c *FnCtx) Emit(active map[*Oblig]bool) string {
	c.active = active
	var defs []string
	c.curDefs = &defs
	var body []string
	// successors must be defined before use in define-fun? we use declare-const + assert, order-free.
	var blocks []*BlockVC
	for _, b := range c.order {
		blocks = append(blocks, c.blocks[b])
	}
	blocks = append(blocks, c.exit)
	for _, b := range blocks {
		c.declare(okName(b), "Bool")
	}
	for _, b := range blocks {
		var term Term = "true"
		if b.term != nil {
			term = b.term()
		}
		f := c.fold(b.items, term, &defs)
		body = append(body, fmt.Sprintf("(assert (=> %s %s))", f, okName(b)))
	}
	ax := c.includeAxioms()
	if c.pureDecl["isAscii"] {
		// every printable-ASCII string literal of the function is ASCII (a fact about constants)
		var lits []string
		for lit := range c.strLits {
			lits = append(lits, lit)
		}
		sortStrings(lits)
		for _, lit := range lits {
			ok := len(lit) <= 48
			for i := 0; i < len(lit); i++ {
				if lit[i] < 0x20 || lit[i] > 0x7e {
					ok = false
				}
			}
			if ok {
				ax = append(ax, "(assert (spec$isAscii "+c.strLits[lit]+"))")
			}
		}
	}
	var sb strings.Builder
	var rest strings.Builder
	sb.WriteString(preludeCore)
	for _, d := range c.tt.decls {
		sb.WriteString(d + "\n")
	}
	for _, d := range c.decls {
		rest.WriteString(d + "\n")
	}
	for _, a := range ax {
		rest.WriteString(a + "\n")
	}
	for _, a := range c.axioms {
		rest.WriteString("(assert " + a + ")\n")
	}
	for _, d := range defs {
		rest.WriteString(d + "\n")
	}
	for _, b := range body {
		rest.WriteString(b + "\n")
	}
	if c.fn != nil {
		rest.WriteString(fmt.Sprintf("(assert (not %s))\n", okName(c.blocks[c.fn.Blocks[0]])))
	}
	rs := rest.String()
	for _, p := range preludeParts {
		if strings.Contains(rs, p.sym) {
			sb.WriteString(p.text)
		}
	}
	sb.WriteString(rs)
	return sb.String()
}


func pkgvarArgs(e *Expr) []string {
	var out []string
	var walk func(x *Expr)
	walk = func(x *Expr) {
		if x == nil {
			return
		}
		if x.Op == "call" && x.Name == "pkgvar" && len(x.Args) == 1 && x.Args[0].Op == "str" {
			out = append(out, x.Args[0].Name)
		}
		for _, a := range x.Args {
			walk(a)
		}
	}
	walk(e)
	return out
}
