package main

import (
	"fmt"
	"go/types"
	"strings"
)

// MathArr is a ghost total map (SMT array); written map[K]V in spec types.
type MathArr struct {
	Key, Elem types.Type
}

func (m *MathArr) Underlying() types.Type { return m }
func (m *MathArr) String() string         { return "math[" + m.Key.String() + "]" + m.Elem.String() }

var (
	tInt    = types.Typ[types.Int]
	tBool   = types.Typ[types.Bool]
	tByte   = types.Typ[types.Uint8]
	tString = types.Typ[types.String]
	tReal   = types.Typ[types.Float64]
)

func isInteger(t types.Type) bool {
	b, ok := t.Underlying().(*types.Basic)
	return ok && b.Info()&types.IsInteger != 0
}
func isFloat(t types.Type) bool {
	b, ok := t.Underlying().(*types.Basic)
	return ok && b.Info()&types.IsFloat != 0
}
func isBoolean(t types.Type) bool {
	b, ok := t.Underlying().(*types.Basic)
	return ok && b.Info()&types.IsBoolean != 0
}
func isString(t types.Type) bool {
	b, ok := t.Underlying().(*types.Basic)
	return ok && b.Info()&types.IsString != 0
}
func isStruct(t types.Type) bool {
	_, ok := t.Underlying().(*types.Struct)
	return ok
}
func isSlice(t types.Type) bool {
	_, ok := t.Underlying().(*types.Slice)
	return ok
}
func isPointer(t types.Type) bool {
	_, ok := t.Underlying().(*types.Pointer)
	return ok
}
func isInterface(t types.Type) bool {
	_, ok := t.Underlying().(*types.Interface)
	return ok
}
func isRefLike(t types.Type) bool {
	switch t.Underlying().(type) {
	case *types.Pointer, *types.Chan, *types.Signature, *types.Map, *types.Interface:
		return true
	}
	if b, ok := t.Underlying().(*types.Basic); ok {
		return b.Kind() == types.UnsafePointer || b.Kind() == types.UntypedNil
	}
	return false
}

// intRange returns [lo,hi] decimal strings for an integer type.
func intRange(t types.Type) (lo, hi string, bits int, signed bool) {
	b := t.Underlying().(*types.Basic)
	switch b.Kind() {
	case types.Int8:
		return "-128", "127", 8, true
	case types.Int16:
		return "-32768", "32767", 16, true
	case types.Int32, types.UntypedRune:
		return "-2147483648", "2147483647", 32, true
	case types.Int, types.Int64, types.UntypedInt:
		return "-9223372036854775808", "9223372036854775807", 64, true
	case types.Uint8:
		return "0", "255", 8, false
	case types.Uint16:
		return "0", "65535", 16, false
	case types.Uint32:
		return "0", "4294967295", 32, false
	case types.Uint, types.Uint64, types.Uintptr:
		return "0", "18446744073709551615", 64, false
	}
	return "-9223372036854775808", "9223372036854775807", 64, true
}

func pow2(n int) string {
	// up to 64
	tbl := map[int]string{8: "256", 16: "65536", 32: "4294967296", 64: "18446744073709551616",
		7: "128", 15: "32768", 31: "2147483648", 63: "9223372036854775808"}
	if s, ok := tbl[n]; ok {
		return s
	}
	v := uint64(1) << uint(n)
	return fmt.Sprintf("%d", v)
}

type typeTable struct {
	decls    []string        // datatype declarations in dependency order
	known    map[string]bool // sort name -> declared
	typeIDs  map[string]int
	pkgLocal *types.Package
}

func newTypeTable(pkg *types.Package) *typeTable {
	return &typeTable{known: map[string]bool{}, typeIDs: map[string]int{}, pkgLocal: pkg}
}

func (tt *typeTable) qual(p *types.Package) string {
	if p == tt.pkgLocal {
		return ""
	}
	return p.Name()
}

func (tt *typeTable) typeName(t types.Type) string {
	s := types.TypeString(t, tt.qual)
	// byte/uint8 and rune/int32 are the same type: one component per type, whatever the spelling
	s = strings.ReplaceAll(s, "uint8", "byte")
	s = strings.ReplaceAll(s, "int32", "rune")
	s = strings.ReplaceAll(s, "interface{}", "any")
	return sanitize(s)
}

func (tt *typeTable) typeID(t types.Type) int {
	s := types.TypeString(t, nil)
	if id, ok := tt.typeIDs[s]; ok {
		return id
	}
	id := len(tt.typeIDs) + 1
	tt.typeIDs[s] = id
	return id
}

// structSortName gives the datatype sort for a struct type.
func (tt *typeTable) structSortName(t types.Type) string {
	return "S$" + tt.typeName(t)
}

func (tt *typeTable) sortOf(t types.Type) string {
	switch u := t.(type) {
	case *MathArr:
		return "(Array " + tt.sortOf(u.Key) + " " + tt.sortOf(u.Elem) + ")"
	}
	switch u := t.Underlying().(type) {
	case *types.Basic:
		switch {
		case u.Info()&types.IsBoolean != 0:
			return "Bool"
		case u.Info()&types.IsString != 0:
			return "Str"
		case u.Info()&types.IsInteger != 0:
			return "Int"
		case u.Info()&types.IsFloat != 0:
			return "Real"
		case u.Info()&types.IsComplex != 0:
			return "Real"
		}
		return "Int"
	case *types.Slice:
		return "Slice"
	case *types.Struct:
		name := tt.structSortName(t)
		if !tt.known[name] {
			tt.known[name] = true
			var fs []string
			for i := 0; i < u.NumFields(); i++ {
				fs = append(fs, fmt.Sprintf("(%s$f%d %s)", name, i, tt.sortOf(u.Field(i).Type())))
			}
			if len(fs) == 0 {
				tt.decls = append(tt.decls, fmt.Sprintf("(declare-datatypes ((%s 0)) (((mk$%s))))", name, name))
			} else {
				tt.decls = append(tt.decls, fmt.Sprintf("(declare-datatypes ((%s 0)) (((mk$%s %s))))", name, name, strings.Join(fs, " ")))
			}
		}
		return name
	case *types.Array:
		return "(Array Int " + tt.sortOf(u.Elem()) + ")"
	case *types.Tuple:
		return "Int"
	}
	return "Int"
}

func sortKey(sort string) string { return sanitize(sort) }

// parseSpecType parses the small textual type language used in specs.
func (g *Gen) parseSpecType(s string) (types.Type, error) {
	s = strings.TrimSpace(s)
	switch s {
	case "int":
		return tInt, nil
	case "bool":
		return tBool, nil
	case "byte", "uint8":
		return tByte, nil
	case "string":
		return tString, nil
	case "int64":
		return types.Typ[types.Int64], nil
	case "int32", "rune":
		return types.Typ[types.Int32], nil
	case "uint32":
		return types.Typ[types.Uint32], nil
	case "real", "float64":
		return tReal, nil
	case "error":
		return types.Universe.Lookup("error").Type(), nil
	case "ref":
		return types.Typ[types.UnsafePointer], nil
	case "any", "interface{}":
		return types.NewInterfaceType(nil, nil), nil
	}
	if strings.HasPrefix(s, "[]") {
		el, err := g.parseSpecType(s[2:])
		if err != nil {
			return nil, err
		}
		return types.NewSlice(el), nil
	}
	if strings.HasPrefix(s, "*") {
		el, err := g.parseSpecType(s[1:])
		if err != nil {
			return nil, err
		}
		return types.NewPointer(el), nil
	}
	if strings.HasPrefix(s, "map[") {
		depth := 0
		for i := 3; i < len(s); i++ {
			if s[i] == '[' {
				depth++
			}
			if s[i] == ']' {
				depth--
				if depth == 0 {
					k, err := g.parseSpecType(s[4:i])
					if err != nil {
						return nil, err
					}
					v, err := g.parseSpecType(s[i+1:])
					if err != nil {
						return nil, err
					}
					return &MathArr{k, v}, nil
				}
			}
		}
	}
	if i := strings.Index(s, "."); i > 0 {
		pk, name := s[:i], s[i+1:]
		for _, p := range g.allPkgs {
			if p.Name() == pk {
				if o := p.Scope().Lookup(name); o != nil {
					if tn, ok := o.(*types.TypeName); ok {
						return tn.Type(), nil
					}
				}
			}
		}
		return nil, fmt.Errorf("unknown type %q", s)
	}
	if o := g.tpkg.Scope().Lookup(s); o != nil {
		if tn, ok := o.(*types.TypeName); ok {
			return tn.Type(), nil
		}
	}
	return nil, fmt.Errorf("unknown type %q", s)
}
