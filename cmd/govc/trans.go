package main

import (
	"fmt"
	"go/constant"
	"go/token"
	"go/types"
	"math/big"
	"sort"
	"strings"

	"golang.org/x/tools/go/ssa"
)

func (c *FnCtx) predEdge(s *ssa.BasicBlock, i int) *EdgeVC {
	p := s.Preds[i]
	n := 0
	for j := 0; j < i; j++ {
		if s.Preds[j] == p {
			n++
		}
	}
	for k, t := range p.Succs {
		if t == s {
			if n == 0 {
				return c.edge(c.blocks[p], c.blocks[s], k)
			}
			n--
		}
	}
	panic("pred edge not found")
}

func (c *FnCtx) translate() (err error) {
	defer func() {
		if r := recover(); r != nil {
			if s, ok := r.(unsupported); ok {
				err = fmt.Errorf("%s: unsupported: %s", c.name, string(s))
				return
			}
			panic(r)
		}
	}()
	fn := c.fn
	// reachable blocks in reverse postorder
	seen := map[*ssa.BasicBlock]bool{}
	var post []*ssa.BasicBlock
	var dfs func(b *ssa.BasicBlock)
	dfs = func(b *ssa.BasicBlock) {
		seen[b] = true
		for _, s := range b.Succs {
			if !seen[s] {
				dfs(s)
			}
		}
		post = append(post, b)
	}
	dfs(fn.Blocks[0])
	for i := len(post) - 1; i >= 0; i-- {
		c.order = append(c.order, post[i])
	}
	for _, b := range c.order {
		c.blocks[b] = &BlockVC{b: b, name: fmt.Sprintf("B%d", b.Index)}
	}
	c.exit = &BlockVC{name: "EXIT", isExit: true}
	// edges
	for _, b := range c.order {
		for k, s := range b.Succs {
			e := c.edge(c.blocks[b], c.blocks[s], k)
			e.back = s.Dominates(b)
		}
		if len(b.Instrs) > 0 {
			if _, ok := b.Instrs[len(b.Instrs)-1].(*ssa.Return); ok {
				c.edge(c.blocks[b], c.exit, 0)
			}
		}
	}
	c.findLoops()
	c.comp("$alloc", "Int")
	// recover block (deferred recover) is not modelled
	if fn.Recover != nil {
		c.warn("function has a recover block (not modelled; panics are obligations instead)")
	}

	for _, b := range c.order {
		bv := c.blocks[b]
		c.cur = bv
		bv.in = &State{m: map[string]Term{}, blk: bv}
		c.st = bv.in
		if b.Index == 0 {
			c.entry = bv.in
			c.prologue()
		}
		li := c.loops[b]
		// phis
		for _, ins := range b.Instrs {
			phi, ok := ins.(*ssa.Phi)
			if !ok {
				break
			}
			t := c.declare(c.regName(phi), c.sortOf(phi.Type()))
			c.vals[phi] = t
		}
		for _, ins := range b.Instrs {
			phi, ok := ins.(*ssa.Phi)
			if !ok {
				break
			}
			c.assume(c.tyInv(c.vals[phi], phi.Type()))
			if li != nil {
				continue
			}
			for i := range b.Preds {
				if !seen[b.Preds[i]] {
					continue
				}
				e := c.predEdge(b, i)
				if e.back {
					continue
				}
				e.items = append(e.items, Item{false, eq(c.vals[phi], c.v(phi.Edges[i])), nil, ""})
			}
		}
		if li != nil {
			c.loopHead(li)
		}
		for _, ins := range b.Instrs {
			if _, ok := ins.(*ssa.Phi); ok {
				continue
			}
			c.instr(ins)
		}
		bv.out = c.st
	}
	// back edges: invariants preserved
	for _, b := range c.order {
		if li := c.loops[b]; li != nil {
			c.loopBackEdges(li)
		}
	}
	c.epilogue()
	if dead := c.deadHints(); len(dead) > 0 {
		panic(unsupported("the contract has 'before " + strings.Join(dead, "', 'before ") + "' clause(s) but the function has no such call / channel operation"))
	}
	return nil
}

type unsupported string

func (c *FnCtx) regName(v ssa.Value) string {
	return sanitize(v.Name())
}

// ---------- loops

func (c *FnCtx) findLoops() {
	for _, b := range c.order {
		for _, s := range b.Succs {
			if s.Dominates(b) {
				li := c.loops[s]
				if li == nil {
					li = &LoopInfo{head: s, body: map[*ssa.BasicBlock]bool{s: true}, mod: map[string]bool{}}
					c.loops[s] = li
				}
				li.latches = append(li.latches, b)
				// natural loop
				var stack []*ssa.BasicBlock
				if !li.body[b] {
					li.body[b] = true
					stack = append(stack, b)
				}
				for len(stack) > 0 {
					x := stack[len(stack)-1]
					stack = stack[:len(stack)-1]
					for _, p := range x.Preds {
						if !li.body[p] && c.blocks[p] != nil {
							li.body[p] = true
							stack = append(stack, p)
						}
					}
				}
			}
		}
	}
	var lis []*LoopInfo
	for _, li := range c.loops {
		li.minPos = token.NoPos
		for b := range li.body {
			for _, ins := range b.Instrs {
				if _, ok := ins.(*ssa.DebugRef); ok {
					continue
				}
				if p := ins.Pos(); p.IsValid() && (li.minPos == token.NoPos || p < li.minPos) {
					li.minPos = p
				}
			}
		}
		lis = append(lis, li)
	}
	sort.Slice(lis, func(i, j int) bool {
		if lis[i].minPos != lis[j].minPos {
			return lis[i].minPos < lis[j].minPos
		}
		if len(lis[i].body) != len(lis[j].body) {
			return len(lis[i].body) > len(lis[j].body)
		}
		return lis[i].head.Index < lis[j].head.Index
	})
	for i, li := range lis {
		li.ord = i + 1
		if c.spec != nil {
			li.spec = c.spec.Loops[li.ord]
		}
		c.loopModified(li)
	}
	if c.spec != nil {
		for n := range c.spec.Loops {
			if n < 1 || n > len(lis) {
				c.warn("contract names loop %d but function has %d loops", n, len(lis))
			}
		}
	}
}

// ---------- values

func (c *FnCtx) strLit(s string) Term {
	if t, ok := c.strLits[s]; ok {
		return t
	}
	var t Term
	if len(s) <= 48 {
		arr := "((as const (Array Int Int)) 0)"
		for i := 0; i < len(s); i++ {
			arr = app("store", arr, num(int64(i)), num(int64(s[i])))
		}
		t = app("mk-str", arr, num(int64(len(s))))
	} else {
		a := c.freshConst("strlit", "(Array Int Int)")
		t = app("mk-str", a, num(int64(len(s))))
	}
	c.strLits[s] = t
	return t
}

func (c *FnCtx) constVal(x *ssa.Const) Term {
	t := x.Type()
	if x.Value == nil {
		return c.zero(t)
	}
	switch x.Value.Kind() {
	case constant.Bool:
		if constant.BoolVal(x.Value) {
			return "true"
		}
		return "false"
	case constant.String:
		return c.strLit(constant.StringVal(x.Value))
	case constant.Int:
		if isFloat(t) {
			return numStr(x.Value.ExactString()) + ".0"
		}
		return numStr(x.Value.ExactString())
	case constant.Float:
		if isInteger(t) {
			if i := constant.ToInt(x.Value); i.Kind() == constant.Int {
				return numStr(i.ExactString())
			}
		}
		r, ok := new(big.Rat).SetString(x.Value.ExactString())
		if !ok {
			return c.freshConst("fconst", "Real")
		}
		n, d := r.Num().String(), r.Denom().String()
		if strings.HasPrefix(n, "-") {
			return fmt.Sprintf("(- (/ %s.0 %s.0))", n[1:], d)
		}
		return fmt.Sprintf("(/ %s.0 %s.0)", n, d)
	}
	return c.freshConst("const", c.sortOf(t))
}

func (c *FnCtx) v(x ssa.Value) Term {
	if t, ok := c.vals[x]; ok {
		return t
	}
	switch x := x.(type) {
	case *ssa.Const:
		return c.constVal(x)
	case *ssa.Global:
		// address of a global used as a value
		t := c.declare("gaddr$"+sanitize(x.Name()), "Int")
		c.vals[x] = t
		return t
	case *ssa.Function:
		t := c.declare("fn$"+sanitize(c.g.fnName(x)), "Int")
		c.vals[x] = t
		c.axioms = append(c.axioms, not(eq(t, "0")))
		return t
	case *ssa.Builtin:
		return "0"
	}
	if l, ok := c.locs[x]; ok {
		// the address itself is needed as a value (escapes)
		t := c.addrOfLoc(l)
		c.vals[x] = t
		return t
	}
	panic(unsupported(fmt.Sprintf("value %s (%T) used before definition", x.Name(), x)))
}

func (c *FnCtx) addrOfLoc(l *Loc) Term {
	// an opaque but deterministic, non-nil pointer value for the location
	c.declareFun("locaddr", []string{"Int", "Int", "Int"}, "Int")
	id := c.tt.typeID(types.NewPointer(types.Typ[types.Int])) // any stable number
	_ = id
	h := int64(0)
	for _, ch := range l.Comp {
		h = (h*131 + int64(ch)) % 1000003
	}
	idx := l.Idx
	if idx == "" {
		idx = "0"
	}
	for _, p := range l.Path {
		if p.field >= 0 {
			h = (h*131 + int64(p.field) + 7) % 1000003
		}
	}
	t := app("locaddr", num(h), l.Ref, idx)
	return t
}

// ---------- locations

func (c *FnCtx) loadLoc(l *Loc, st *State) Term {
	var root Term
	switch l.Kind {
	case "field", "cell":
		root = app("select", c.get(st, l.Comp), l.Ref)
	case "elem":
		root = app("select", c.inner(c.get(st, l.Comp), l.Ref), l.Idx)
	case "global":
		root = c.get(st, l.Comp)
	}
	for _, p := range l.Path {
		if p.field >= 0 {
			root = app(c.sortOf(p.T)+"$f"+fmt.Sprint(p.field), root)
		} else {
			root = app("select", root, p.idx)
		}
	}
	return root
}

func (c *FnCtx) updPath(cur Term, path []pathEl, val Term) Term {
	if len(path) == 0 {
		return val
	}
	p := path[0]
	if p.field >= 0 {
		sname := c.sortOf(p.T)
		st := p.T.Underlying().(*types.Struct)
		var fs []Term
		for i := 0; i < st.NumFields(); i++ {
			acc := app(sname+"$f"+fmt.Sprint(i), cur)
			if i == p.field {
				fs = append(fs, c.updPath(acc, path[1:], val))
			} else {
				fs = append(fs, acc)
			}
		}
		return app("mk$"+sname, fs...)
	}
	return app("store", cur, p.idx, c.updPath(app("select", cur, p.idx), path[1:], val))
}

func (c *FnCtx) storeLoc(l *Loc, val Term) {
	switch l.Kind {
	case "field", "cell":
		old := c.get(c.st, l.Comp)
		nv := c.updPath(app("select", old, l.Ref), l.Path, val)
		n := c.freshComp(l.Comp)
		c.assume(eq(n, app("store", old, l.Ref, nv)))
		c.set(l.Comp, n)
	case "elem":
		old := c.get(c.st, l.Comp)
		inner := c.inner(old, l.Ref)
		nv := c.updPath(app("select", inner, l.Idx), l.Path, val)
		n := c.freshComp(l.Comp)
		st, def := c.storeInner(old, l.Ref, app("store", inner, l.Idx, nv))
		c.assume(eq(n, st))
		c.storeDefs[n] = def
		c.set(l.Comp, n)
	case "global":
		old := c.get(c.st, l.Comp)
		nv := c.updPath(old, l.Path, val)
		n := c.freshComp(l.Comp)
		c.assume(eq(n, nv))
		c.set(l.Comp, n)
	}
}

// loadObject builds a struct value from the object at ref.
func (c *FnCtx) loadObject(ref Term, t types.Type, st *State) Term {
	s := t.Underlying().(*types.Struct)
	name := c.sortOf(t)
	if s.NumFields() == 0 {
		return "mk$" + name
	}
	var fs []Term
	for i := 0; i < s.NumFields(); i++ {
		ft := s.Field(i).Type()
		if isStruct(ft) {
			fs = append(fs, c.loadObject(app("sub", ref, num(int64(i))), ft, st))
		} else {
			fs = append(fs, app("select", c.get(st, c.fieldComp(t, i)), ref))
		}
	}
	return app("mk$"+name, fs...)
}

func (c *FnCtx) storeObject(ref Term, t types.Type, val Term) {
	s := t.Underlying().(*types.Struct)
	name := c.sortOf(t)
	for i := 0; i < s.NumFields(); i++ {
		ft := s.Field(i).Type()
		fv := app(name+"$f"+fmt.Sprint(i), val)
		if isStruct(ft) {
			c.storeObject(app("sub", ref, num(int64(i))), ft, fv)
		} else {
			comp := c.fieldComp(t, i)
			old := c.get(c.st, comp)
			n := c.freshComp(comp)
			c.assume(eq(n, app("store", old, ref, fv)))
			c.set(comp, n)
		}
	}
}

func (c *FnCtx) zeroObject(ref Term, t types.Type) {
	s := t.Underlying().(*types.Struct)
	for i := 0; i < s.NumFields(); i++ {
		ft := s.Field(i).Type()
		if isStruct(ft) {
			c.zeroObject(app("sub", ref, num(int64(i))), ft)
		} else {
			comp := c.fieldComp(t, i)
			old := c.get(c.st, comp)
			n := c.freshComp(comp)
			c.assume(eq(n, app("store", old, ref, c.zero(ft))))
			c.set(comp, n)
		}
	}
}

func (c *FnCtx) objectComps(t types.Type, out map[string]bool) {
	s := t.Underlying().(*types.Struct)
	for i := 0; i < s.NumFields(); i++ {
		ft := s.Field(i).Type()
		if isStruct(ft) {
			c.objectComps(ft, out)
		} else {
			out[c.fieldComp(t, i)] = true
		}
	}
}

// load through a pointer value
func (c *FnCtx) loadPtr(addr ssa.Value, st *State, check bool, pos token.Pos) Term {
	if l, ok := c.locs[addr]; ok {
		return c.loadLoc(l, st)
	}
	if g, ok := addr.(*ssa.Global); ok {
		if g.Pkg != nil && g.Pkg != c.g.pkg {
			// variables of other packages (io.EOF, os.Stdout, ...) are treated as constants: this
			// package never assigns them
			return c.extGlobal(g.Pkg.Pkg.Name()+"."+g.Name(), g.Type().(*types.Pointer).Elem())
		}
		l := &Loc{Kind: "global", Comp: c.globalComp(g), T: g.Type().(*types.Pointer).Elem()}
		return c.loadLoc(l, st)
	}
	ref := c.v(addr)
	el := addr.Type().Underlying().(*types.Pointer).Elem()
	if check {
		c.nilCheck(addr, ref, pos)
	}
	if isStruct(el) {
		return c.loadObject(ref, el, st)
	}
	if a, ok := el.Underlying().(*types.Array); ok {
		// pointer to array object: contents live in Elem
		return c.inner(c.get(st, c.elemComp(a.Elem())), ref)
	}
	return app("select", c.get(st, c.cellComp(el)), ref)
}

func (c *FnCtx) storePtr(addr ssa.Value, val Term, pos token.Pos) {
	if l, ok := c.locs[addr]; ok {
		c.storeLoc(l, val)
		return
	}
	if g, ok := addr.(*ssa.Global); ok {
		l := &Loc{Kind: "global", Comp: c.globalComp(g), T: g.Type().(*types.Pointer).Elem()}
		c.storeLoc(l, val)
		return
	}
	ref := c.v(addr)
	el := addr.Type().Underlying().(*types.Pointer).Elem()
	c.nilCheck(addr, ref, pos)
	if isStruct(el) {
		c.storeObject(ref, el, val)
		return
	}
	if a, ok := el.Underlying().(*types.Array); ok {
		comp := c.elemComp(a.Elem())
		old := c.get(c.st, comp)
		n := c.freshComp(comp)
		c.assume(eq(n, app("store", old, ref, val)))
		c.set(comp, n)
		return
	}
	comp := c.cellComp(el)
	old := c.get(c.st, comp)
	n := c.freshComp(comp)
	c.assume(eq(n, app("store", old, ref, val)))
	c.set(comp, n)
}

// nonNilValue reports values statically known to be non-nil.
func (c *FnCtx) nonNilValue(v ssa.Value) bool {
	switch x := v.(type) {
	case *ssa.Alloc, *ssa.FieldAddr, *ssa.IndexAddr, *ssa.Global, *ssa.MakeClosure, *ssa.MakeInterface, *ssa.Function, *ssa.MakeChan, *ssa.MakeMap:
		return true
	case *ssa.FreeVar:
		return true
	case *ssa.Parameter:
		if c.fn.Signature.Recv() != nil && len(c.fn.Params) > 0 && c.fn.Params[0] == x {
			return true
		}
	}
	return false
}

func (c *FnCtx) nilCheck(v ssa.Value, ref Term, pos token.Pos) {
	if c.nonNilValue(v) {
		return
	}
	txt := c.g.exprTextAt(pos, "nil")
	if txt == "" {
		txt = stableName(v)
	}
	o := c.oblig(fmt.Sprintf("%s/nil:%s", c.name, txt), "nil", c.g.posStr(pos), true)
	c.assert(o, not(eq(ref, "0")))
}

// ---------- integer helpers

func (c *FnCtx) wrap(x Term, t types.Type) Term {
	if !isInteger(t) {
		return x
	}
	_, _, bits, signed := intRange(t)
	if bits >= 64 {
		if !signed {
			return x // uint64 arithmetic treated as mathematical (assumption)
		}
		return x
	}
	if !signed {
		return app("mod", x, pow2(bits))
	}
	return app("-", app("mod", app("+", x, pow2(bits-1)), pow2(bits)), pow2(bits-1))
}

func fitsIn(from, to types.Type) bool {
	_, _, fb, fs := intRange(from)
	_, _, tb, ts := intRange(to)
	if fs == ts {
		return fb <= tb
	}
	if !fs && ts {
		return fb < tb
	}
	return false
}

func (c *FnCtx) convertInt(x Term, from, to types.Type) Term {
	if fitsIn(from, to) {
		return x
	}
	_, _, bits, signed := intRange(to)
	if !signed {
		return app("mod", x, pow2(bits))
	}
	return app("-", app("mod", app("+", x, pow2(bits-1)), pow2(bits)), pow2(bits-1))
}

func constInt(v ssa.Value) (int64, bool) {
	if k, ok := v.(*ssa.Const); ok && k.Value != nil && k.Value.Kind() == constant.Int {
		if i, ok := constant.Int64Val(k.Value); ok {
			return i, true
		}
	}
	return 0, false
}

func (c *FnCtx) bitop(op string, x, y Term, t types.Type) Term {
	name := "bitop$" + op
	c.declareFun(name, []string{"Int", "Int"}, "Int")
	r := app(name, x, y)
	return r
}

func (c *FnCtx) extGlobal(name string, t types.Type) Term {
	c.extGlobals[name] = true
	return c.declare("GC$"+sanitize(name), c.sortOf(t))
}
