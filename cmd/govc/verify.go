package main

import (
	"fmt"
	"os"
	"sort"
	"sync"
	"time"
)

type OblResult struct {
	Func   string
	ID     string
	Kind   string
	Safety bool
	Cover  bool
	Src    []string
	Desc   string
	Answer string // unsat sat unknown timeout error conflict
	Solver string
	Secs   float64
	Joint  bool
	File   string
	Output string
	Points int
	Tags   []string
	Peer   bool
}

type FuncResult struct {
	Name         string
	Err          string
	Warnings     []string
	Obls         []*OblResult
	Trusted      []string
	Uncontracted []string
	SMTBytes     int
	Secs         float64
	HasSpec      bool
	Loops        int
}

type VerifyOpts struct {
	WorkDir    string
	Timeout    time.Duration
	JointFirst bool
	AllSolvers bool
	KeepFiles  bool
	Only       func(o *Oblig) bool // which obligations to check (nil = all)
	Covers     bool
}

func keys(m map[string]bool) []string {
	var ks []string
	for k := range m {
		ks = append(ks, k)
	}
	sort.Strings(ks)
	return ks
}

// prepare translates a function and returns the context and base SMT text.
func (g *Gen) prepare(name string) (*FnCtx, string, error) {
	fn := g.funcs[name]
	if fn == nil {
		return nil, "", fmt.Errorf("no such function %q", name)
	}
	c := g.newCtx(fn)
	if err := c.translate(); err != nil {
		return c, "", err
	}
	var base string
	var err error
	c.emitErr = func(active map[*Oblig]bool) (txt string, err error) {
		defer func() {
			if r := recover(); r != nil {
				if s, ok := r.(unsupported); ok {
					err = fmt.Errorf("%s: %s", name, string(s))
					return
				}
				panic(r)
			}
		}()
		return c.Emit(active), nil
	}
	func() {
		defer func() {
			if r := recover(); r != nil {
				if s, ok := r.(unsupported); ok {
					err = fmt.Errorf("%s: %s", name, string(s))
					return
				}
				panic(r)
			}
		}()
		base = c.Emit(map[*Oblig]bool{})
	}()
	return c, base, err
}

func (g *Gen) verifyFunc(name string, opts VerifyOpts) *FuncResult {
	start := time.Now()
	fr := &FuncResult{Name: name}
	c, base, err := g.prepare(name)
	if c != nil {
		fr.Warnings = c.warnings
		fr.HasSpec = c.spec != nil
		fr.Loops = len(c.loops)
	}
	if err != nil {
		fr.Err = err.Error()
		return fr
	}
	fr.Trusted = keys(c.trusted)
	fr.Uncontracted = keys(c.uncontr)
	fr.SMTBytes = len(base)
	dir := opts.WorkDir + "/" + sanitize(name)
	var todo []*Oblig
	var covers []*Oblig
	for _, o := range c.obls {
		if o.Cover {
			if opts.Covers {
				covers = append(covers, o)
			}
			continue
		}
		if opts.Only == nil || opts.Only(o) {
			todo = append(todo, o)
		}
	}
	res := map[*Oblig]*OblResult{}
	var rmu sync.Mutex
	mk := func(o *Oblig) *OblResult {
		r := &OblResult{Func: name, ID: o.ID, Kind: o.Kind, Safety: o.Safety, Cover: o.Cover, Src: o.Src, Desc: o.Desc, Points: o.N, Tags: o.Tags}
		rmu.Lock()
		res[o] = r
		rmu.Unlock()
		return r
	}
	jointDone := false
	if opts.JointFirst && len(todo) > 1 {
		act := map[*Oblig]bool{}
		for _, o := range todo {
			act[o] = true
		}
		f := writeQuery(dir, "joint", c.Emit(act)+"(check-sat)\n")
		r := race(f, 4*time.Second, []string{"z3-new", "z3-new-noext"})
		if r.Answer == "unsat" {
			jointDone = true
			for _, o := range todo {
				or := mk(o)
				or.Answer, or.Solver, or.Secs, or.Joint = "unsat", r.Solver, r.Secs/float64(len(todo)), true
			}
			if !opts.KeepFiles {
				os.Remove(f)
			}
		}
	}
	var emu sync.Mutex
	emit := func(act map[*Oblig]bool) string {
		emu.Lock()
		defer emu.Unlock()
		return c.Emit(act) + "(check-sat)\n"
	}
	var wg sync.WaitGroup
	if !jointDone {
		for _, o := range todo {
			o := o
			or := mk(o)
			wg.Add(1)
			go func() {
				defer wg.Done()
				f := writeQuery(dir, o.ID, emit(map[*Oblig]bool{o: true}))
				best := race(f, opts.Timeout, solverOrder)
				or.Answer, or.Solver, or.Secs, or.File = best.Answer, best.Solver, best.Secs, f
				if best.Answer != "unsat" {
					or.Output = best.Output
				} else if !opts.KeepFiles {
					os.Remove(f)
					or.File = ""
				}
			}()
		}
	}
	wg.Wait()
	for _, o := range covers {
		act := map[*Oblig]bool{o: true}
		f := writeQuery(dir, o.ID, emit(act))
		r := runSolver("z3-new", f, 2*time.Second)
		or := mk(o)
		or.Answer, or.Solver, or.Secs = r.Answer, r.Solver, r.Secs
		if r.Answer == "unsat" {
			or.File = f
		} else if !opts.KeepFiles {
			os.Remove(f)
		}
	}
	for _, o := range c.obls {
		if r, ok := res[o]; ok {
			fr.Obls = append(fr.Obls, r)
		}
	}
	if !opts.KeepFiles {
		os.Remove(dir) // only succeeds when empty
	}
	fr.Secs = time.Since(start).Seconds()
	return fr
}
