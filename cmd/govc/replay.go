package main

import (
	"bytes"
	"context"
	"encoding/json"
	"fmt"
	"os"
	"os/exec"
	"path/filepath"
	"strings"
	"sync"
	"time"
)

// Harness: an in-package Go test (under /verif/harness) that evaluates contract postconditions
// concretely on the real functions for all small inputs. It serves two purposes:
//   - replay: when an obligation of one of its functions fails, it searches for a failing input
//     on the real code (confirmed violation, with the input in the replay file);
//   - bounded stand-in (thorough tier): run on its own, labelled bounded, never counted as proved.
type Harness struct {
	Name          string   `json:"name"`
	File          string   `json:"file"`
	Run           string   `json:"run"`
	Funcs         []string `json:"funcs"` // function-name prefixes this harness exercises
	BoundQuick    string   `json:"bound_quick"`
	BoundThorough string   `json:"bound_thorough"`
	Describe      string   `json:"describe"`
}

type harnessRun struct {
	ok     bool
	output string
	secs   float64
	cmd    string
}

var (
	harnessMu    sync.Mutex
	harnessCache = map[string]*harnessRun{}
)

func runHarness(h Harness, bound, verif, repo string, timeout time.Duration) *harnessRun {
	key := h.File + "|" + h.Run + "|" + bound
	harnessMu.Lock()
	if r, ok := harnessCache[key]; ok {
		harnessMu.Unlock()
		return r
	}
	harnessMu.Unlock()
	start := time.Now()
	tmp, _ := os.MkdirTemp("", "govc-harness")
	defer os.RemoveAll(tmp)
	ov := map[string]map[string]string{"Replace": {filepath.Join(repo, "trzsz", "zz_verif_harness_test.go"): filepath.Join(verif, "harness", h.File)}}
	b, _ := json.Marshal(ov)
	ovPath := filepath.Join(tmp, "ov.json")
	os.WriteFile(ovPath, b, 0o644)
	ctx, cancel := context.WithTimeout(context.Background(), timeout+30*time.Second)
	defer cancel()
	args := []string{"test", "-overlay", ovPath, "-vet=off", "-count=1", "-timeout", fmt.Sprintf("%ds", int(timeout.Seconds())), "-run", h.Run, "./trzsz"}
	cmd := exec.CommandContext(ctx, "go", args...)
	cmd.Dir = repo
	cmd.Env = append(os.Environ(), "GOFLAGS=-mod=mod", "GOPROXY=off", "GOSUMDB=off", "GOTOOLCHAIN=local", "VERIF_BOUND="+bound)
	var out bytes.Buffer
	cmd.Stdout = &out
	cmd.Stderr = &out
	err := cmd.Run()
	text := out.String()
	if len(text) > 30000 {
		text = text[:30000] + "\n...[truncated]"
	}
	r := &harnessRun{ok: err == nil, output: text, secs: time.Since(start).Seconds(),
		cmd: fmt.Sprintf("cd %s && VERIF_BOUND=%s go test -overlay <{%s/trzsz/zz_verif_harness_test.go -> %s/harness/%s}> -vet=off -count=1 -run '%s' ./trzsz", repo, bound, repo, verif, h.File, h.Run)}
	// a build failure of the harness against a changed tree is not a confirmation of anything
	if err != nil && (strings.Contains(text, "[build failed]") || strings.Contains(text, "[setup failed]")) {
		r.ok = true
		r.output = "HARNESS DID NOT BUILD against this tree (not a confirmation):\n" + text
	}
	harnessMu.Lock()
	harnessCache[key] = r
	harnessMu.Unlock()
	return r
}

func harnessFor(p *PropConfig, fn string) []Harness {
	var hs []Harness
	for _, h := range p.Harness {
		for _, pre := range h.Funcs {
			if strings.HasPrefix(fn, pre) {
				hs = append(hs, h)
				break
			}
		}
	}
	return hs
}

func tryReplay(g *Gen, p *PropConfig, r *OblResult, verif, repo string) ReplayResult {
	hs := harnessFor(p, r.Func)
	if len(hs) == 0 {
		return ReplayResult{Summary: "no replay harness for this function; the solver gave no concrete model that could be run"}
	}
	var notes []string
	for _, h := range hs {
		bound := h.BoundQuick
		run := runHarness(h, bound, verif, repo, 60*time.Second)
		if !run.ok {
			return ReplayResult{Confirmed: true, Summary: fmt.Sprintf("CONFIRMED on the real code by harness %s (bound %s): a concrete failing input is shown below", h.File, bound),
				File: filepath.Join(verif, "harness", h.File), Output: "command: " + run.cmd + "\n" + run.output}
		}
		notes = append(notes, fmt.Sprintf("harness %s (bound %s, %.1fs) found no failing input", h.File, bound, run.secs))
	}
	return ReplayResult{Summary: strings.Join(notes, "; ")}
}

func runBounded(p *PropConfig, tier, verif, repo string) []BoundedResult {
	var out []BoundedResult
	// bounded stand-ins run in both tiers (quick bound / thorough bound): they cover what the contracts
	// do not reach (e.g. escapeReader.Read, the two-party composition) and are never counted as proved
	for _, h := range p.Harness {
		bound := h.BoundThorough
		limit := 900 * time.Second
		if tier != "thorough" || bound == "" {
			bound = h.BoundQuick
			limit = 180 * time.Second
		}
		run := runHarness(h, bound, verif, repo, limit)
		out = append(out, BoundedResult{Name: h.Name + " (" + h.File + ")", Bound: "VERIF_BOUND=" + bound + ": " + h.Describe, Output: "command: " + run.cmd + "\n" + run.output, OK: run.ok, Secs: run.secs})
	}
	return out
}

func (g *Gen) checkLemmas(p *PropConfig, bl *Baseline, tier, work string, out *CheckOutcome) int {
	return 0
}
