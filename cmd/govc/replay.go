package main

func tryReplay(g *Gen, p *PropConfig, r *OblResult, verif, repo string) ReplayResult {
	return ReplayResult{Summary: "no replay harness for this obligation"}
}

func runBounded(p *PropConfig, tier, verif, repo string) []BoundedResult {
	return nil
}

func (g *Gen) checkLemmas(p *PropConfig, bl *Baseline, tier, work string, out *CheckOutcome) int {
	return 0
}
