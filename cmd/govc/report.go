package main

import (
	"encoding/json"
	"fmt"
	"os"
	"path/filepath"
	"sort"
	"strings"
	"sync"
	"time"
)

var globalAssumptions = []string{
	"x/tools go/ssa (v0.29.0) and go/types are faithful to the Go compiler: obligations are generated from the SSA form built on every run from /repo's working tree",
	"the obligation generator govc itself (exercised by the must-fail and benign selftest corpora, not verified)",
	"soundness of z3 5.1.0 / z3 4.8.12 / cvc5 1.0.3 for 'unsat' answers (cross-checked against each other in the thorough tier)",
	"integers are mathematical: + - * on 64-bit types are not wrapped (narrower types are wrapped exactly); bit operations other than shifts/masks by constants are uninterpreted",
	"goroutines are not interleaved: each function literal is verified as sequential code; sync/atomic reads return arbitrary values; memory not marked shared is assumed race-free",
	"channel receives and select return arbitrary well-typed values (no capacity, blocking or fairness model)",
	"calls without a contract havoc all heap state (external callees in packages declared 'purepkg' in specs/trusted.spec are assumed not to touch caller-visible memory); external packages do not panic",
	"pointer and interface parameters (except error) and receivers are assumed non-nil unless the contract says 'nilable'; call sites are not checked for this",
	"an obligation outside the baseline that is assumed by a later obligation of the same function is an unproved hypothesis of that later obligation (listed under coverage.not_claimed)",
	"recover blocks are not entered: panics are proof obligations instead; termination is proved only where a contract gives 'decreases'",
	"linux/amd64 build with tag 'verif' (Windows/macOS-only files are out of scope)",
}

func report(g *Gen, p *PropConfig, bl *Baseline, out *CheckOutcome, tier string, seed int, verif, repo string, start time.Time) int {
	findings := loadFindings(filepath.Join(verif, "known_findings.txt"))
	known := map[string]Finding{}
	for _, f := range findings {
		if !f.Fixed && f.Property == p.ID {
			known[f.Oblig] = f
		}
	}
	var failing []*OblResult
	var knownHit []*OblResult
	var undecidedNew []string
	var vacuous []string
	notClaimedKinds := map[string]int{}
	var notClaimedList []map[string]string
	obligations, discharged := 0, 0
	covTotal, covSat, covUnk := 0, 0, 0
	toolErr := ""
	seenIDs := map[string]bool{}
	for _, r := range out.Results {
		seenIDs[r.ID] = true
		if r.Answer == "conflict" {
			toolErr = "solvers disagree on " + r.ID
		}
		if r.Cover {
			covTotal++
			switch r.Answer {
			case "sat":
				covSat++
			case "unsat":
				if !bl.Unreach[r.ID] {
					vacuous = append(vacuous, r.ID)
				}
			default:
				covUnk++
			}
			continue
		}
		claimed := bl.Claimed[r.ID]
		if claimed {
			obligations++
			if r.Answer == "unsat" {
				discharged++
			} else if _, ok := known[r.ID]; ok {
				knownHit = append(knownHit, r)
			} else {
				failing = append(failing, r)
			}
			continue
		}
		notClaimedKinds[r.Kind]++
		if len(notClaimedList) < 400 {
			notClaimedList = append(notClaimedList, map[string]string{"obligation": r.ID, "answer": r.Answer})
		}
		if r.Answer == "sat" && !bl.NotClaimed[r.ID] {
			if _, ok := known[r.ID]; ok {
				knownHit = append(knownHit, r)
			} else {
				failing = append(failing, r)
			}
		} else if r.Answer != "unsat" && !bl.NotClaimed[r.ID] {
			undecidedNew = append(undecidedNew, r.ID)
		} else if r.Answer != "unsat" {
			if _, ok := known[r.ID]; ok {
				knownHit = append(knownHit, r)
			}
		}
	}
	var missing []string
	for id := range bl.Claimed {
		if !seenIDs[id] {
			missing = append(missing, id)
		}
	}
	sort.Strings(missing)
	// A claimed "before <callee> assert" obligation that is no longer generated: the call site it was
	// attached to changed.  If the same hint now appears under another call text and is discharged, it
	// was only renamed; otherwise the contract no longer holds at (or no longer reaches) that site.
	type lostHint struct{ id, repl string }
	var lostHints []lostHint
	for _, id := range missing {
		i := strings.Index(id, "/hint:")
		if i < 0 {
			continue
		}
		rest := id[i+len("/hint:"):]
		j := strings.Index(rest, ":")
		if j < 0 {
			continue
		}
		prefix := id[:i+len("/hint:")+j+1]
		found, bad := false, ""
		for _, r := range out.Results {
			if !r.Cover && !bl.Claimed[r.ID] && strings.HasPrefix(r.ID, prefix) {
				found = true
				if r.Answer != "unsat" && bad == "" {
					bad = r.ID
				}
			}
		}
		if _, isKnown := known[id]; isKnown {
			continue
		}
		if !found || bad != "" {
			lostHints = append(lostHints, lostHint{id, bad})
		}
	}
	undecided := ""
	var errFuncs []string
	for f, e := range out.FuncErrs {
		errFuncs = append(errFuncs, f+": "+e)
	}
	sort.Strings(errFuncs)
	var brokenFuncs []string
	for f := range out.FuncErrs {
		// a function that carries claimed obligations and no longer fits its contract: none of those
		// obligations can be discharged on this tree
		n := 0
		for id := range bl.Claimed {
			if strings.HasPrefix(id, f+"/") {
				n++
			}
		}
		if n > 0 {
			if strings.Contains(out.FuncErrs[f], "function not found") {
				undecided = "function " + f + " is gone from this tree"
			} else {
				brokenFuncs = append(brokenFuncs, f)
			}
		}
	}
	sort.Strings(brokenFuncs)

	// A proved safety bound (index, slice, division, make, Repeat count, type assertion) that is gone from
	// a function which now carries a NEW obligation of the same kind that does not discharge: the bound
	// was replaced by one that can no longer be proved.
	safetyKind := func(id string) string {
		i := strings.Index(id, "/")
		if i < 0 {
			return ""
		}
		rest := id[i+1:]
		for _, k := range []string{"index:", "slice:", "div:", "makeslice:", "typeassert:", "overflow:", "allocbound:"} {
			if strings.HasPrefix(rest, k) {
				return id[:i] + "/" + k
			}
		}
		return ""
	}
	lostSafety := map[string]string{}
	for _, id := range missing {
		if k := safetyKind(id); k != "" {
			lostSafety[k] = id
		}
	}
	// A NEW crash site (index, slice, make, division) fed by a number that comes from the peer, which does
	// not discharge: exactly what C12 forbids, so it is reported even without a counter-model.
	var peerSites []*OblResult
	if p.ID == "C12" || p.StrictSafety {
		for _, r := range out.Results {
			if r.Cover || !(r.Peer || (p.StrictSafety && r.Safety)) || bl.Claimed[r.ID] || bl.NotClaimed[r.ID] || r.Answer == "unsat" || r.Answer == "sat" || r.Answer == "skipped" {
				continue
			}
			if _, isKnown := known[r.ID]; !isKnown {
				peerSites = append(peerSites, r)
			}
		}
	}
	var replaced []*OblResult
	if len(lostSafety) > 0 {
		for _, r := range out.Results {
			if r.Cover || bl.Claimed[r.ID] || bl.NotClaimed[r.ID] || r.Answer == "unsat" || r.Answer == "sat" {
				continue
			}
			if k := safetyKind(r.ID); k != "" && lostSafety[k] != "" {
				if _, isKnown := known[r.ID]; !isKnown {
					replaced = append(replaced, r)
				}
			}
		}
	}

	// replay / violation files
	replayDir := filepath.Join(env("VERIF_REPLAY_DIR", filepath.Join(verif, "replay")), p.ID)
	var vioLines []string
	for _, r := range failing {
		os.MkdirAll(replayDir, 0o755)
		path := filepath.Join(replayDir, sanitize(r.ID)+".txt")
		rep := tryReplay(g, p, r, verif, repo)
		var sb strings.Builder
		fmt.Fprintf(&sb, "property: %s\nobligation: %s\nkind: %s\nsource: %s\nclause: %s\nsolver answer: %s (%s)\n", p.ID, r.ID, r.Kind, strings.Join(r.Src, " "), r.Desc, r.Answer, r.Solver)
		if bl.Claimed[r.ID] {
			sb.WriteString("status: this obligation was discharged on the unchanged tree (it is in the baseline) and no longer is\n")
		} else {
			sb.WriteString("status: new obligation in a function under verification; the solver produced a counter-model\n")
		}
		sb.WriteString("replay: " + rep.Summary + "\n")
		if rep.File != "" {
			sb.WriteString("replay test: " + rep.File + "\n")
		}
		if rep.Output != "" {
			sb.WriteString("---- replay output ----\n" + rep.Output + "\n")
		}
		sb.WriteString("---- solver output ----\n" + r.Output + "\n")
		if r.File != "" {
			if b, err := os.ReadFile(r.File); err == nil && len(b) < 400000 {
				sb.WriteString("---- SMT query ----\n" + string(b))
			}
		}
		os.WriteFile(path, []byte(sb.String()), 0o644)
		line := fmt.Sprintf("VIOLATION property=%s replay=%s obligation=%s", p.ID, path, r.ID)
		if !rep.Confirmed {
			line += " no-failing-input-found"
		}
		vioLines = append(vioLines, line)
	}

	for _, r := range peerSites {
		dup := false
		for _, x := range replaced {
			if x == r {
				dup = true
			}
		}
		if dup {
			continue
		}
		os.MkdirAll(replayDir, 0o755)
		path := filepath.Join(replayDir, sanitize(r.ID)+"_peer.txt")
		rep := tryReplay(g, p, r, verif, repo)
		msg := fmt.Sprintf("property: %s\nobligation: %s\nkind: %s\nsource: %s\nstatus: new in this tree; a panic site (index / slice bound / allocation size / divisor / assertion) that the property forbids - fed by a number received from the peer, or inside a function the property requires never to fail - and its bound does not discharge (solver answer: %s)\nreplay: %s\n", p.ID, r.ID, r.Kind, strings.Join(r.Src, " "), r.Answer, rep.Summary)
		os.WriteFile(path, []byte(msg), 0o644)
		line := fmt.Sprintf("VIOLATION property=%s replay=%s obligation=%s", p.ID, path, r.ID)
		if !rep.Confirmed {
			line += " no-failing-input-found"
		}
		vioLines = append(vioLines, line)
	}
	for _, r := range replaced {
		os.MkdirAll(replayDir, 0o755)
		path := filepath.Join(replayDir, sanitize(r.ID)+"_replaced.txt")
		rep := tryReplay(g, p, r, verif, repo)
		msg := fmt.Sprintf("property: %s\nobligation: %s\nkind: %s\nsource: %s\nstatus: a bound of this kind was proved in this function on the unchanged tree (%s) and is gone; the bound that stands in its place does not discharge (solver answer: %s)\nreplay: %s\n", p.ID, r.ID, r.Kind, strings.Join(r.Src, " "), lostSafety[safetyKind(r.ID)], r.Answer, rep.Summary)
		if rep.Output != "" {
			msg += "---- replay output ----\n" + rep.Output + "\n"
		}
		os.WriteFile(path, []byte(msg), 0o644)
		line := fmt.Sprintf("VIOLATION property=%s replay=%s obligation=%s", p.ID, path, r.ID)
		if !rep.Confirmed {
			line += " no-failing-input-found"
		}
		vioLines = append(vioLines, line)
	}
	for _, lh := range lostHints {
		fn := lh.id[:strings.Index(lh.id, "/hint:")]
		if _, broken := out.FuncErrs[fn]; broken {
			continue
		}
		os.MkdirAll(replayDir, 0o755)
		path := filepath.Join(replayDir, sanitize(lh.id)+"_lost.txt")
		msg := fmt.Sprintf("property: %s\nobligation: %s\nstatus: this obligation ('before <callee> assert ...' in the contract) was discharged on the unchanged tree; ", p.ID, lh.id)
		if lh.repl != "" {
			msg += "the call it is attached to changed and the assertion is no longer provable there: " + lh.repl + "\n"
			for _, r := range out.Results {
				if r.ID == lh.repl {
					msg += fmt.Sprintf("clause: %s\nsolver answer: %s (%s)\n---- solver output ----\n%s\n", r.Desc, r.Answer, r.Solver, r.Output)
				}
			}
		} else {
			msg += "the call it is attached to is gone from the function, so the contract no longer applies to this code\n"
		}
		os.WriteFile(path, []byte(msg), 0o644)
		vioLines = append(vioLines, fmt.Sprintf("VIOLATION property=%s replay=%s obligation=%s no-failing-input-found", p.ID, path, lh.id))
	}
	for _, f := range brokenFuncs {
		os.MkdirAll(replayDir, 0o755)
		path := filepath.Join(replayDir, sanitize(f)+"_contract.txt")
		os.WriteFile(path, []byte(fmt.Sprintf("property: %s\nfunction: %s\nstatus: the contract that was verified for this function on the unchanged tree no longer applies to its code, so none of its obligations can be discharged\nreason: %s\n", p.ID, f, out.FuncErrs[f])), 0o644)
		vioLines = append(vioLines, fmt.Sprintf("VIOLATION property=%s replay=%s obligation=%s/contract no-failing-input-found", p.ID, path, f))
	}
	// samples
	var samples []interface{}
	for _, r := range out.Results {
		if len(samples) >= 3 {
			break
		}
		if r.Cover || !bl.Claimed[r.ID] {
			continue
		}
		if len(samples) == 1 && r.Kind == "index" {
			continue
		}
		samples = append(samples, map[string]interface{}{"obligation": r.ID, "kind": r.Kind, "source": r.Src, "clause": r.Desc, "answer": r.Answer, "solver": r.Solver, "secs": r.Secs, "joint_query": r.Joint, "program_points": r.Points})
	}
	if len(samples) == 0 {
		for _, r := range out.Results {
			if !r.Cover {
				samples = append(samples, map[string]interface{}{"obligation": r.ID, "kind": r.Kind, "answer": r.Answer})
				break
			}
		}
	}
	var underContract []string
	for _, f := range out.Funcs {
		if g.specs.Funcs[f] != nil {
			underContract = append(underContract, f)
		}
	}
	trusted := keys(out.Trusted)
	// the slowest obligations that count (margin against the per-obligation timeout)
	var slow []*OblResult
	for _, r := range out.Results {
		if !r.Cover && bl.Claimed[r.ID] && !r.Joint {
			slow = append(slow, r)
		}
	}
	sort.Slice(slow, func(i, j int) bool { return slow[i].Secs > slow[j].Secs })
	var slowest []map[string]interface{}
	for i := 0; i < len(slow) && i < 5; i++ {
		slowest = append(slowest, map[string]interface{}{"obligation": slow[i].ID, "secs": slow[i].Secs, "solver": slow[i].Solver})
	}
	bounded := runBounded(p, tier, verif, repo)
	for _, b := range bounded {
		if !b.OK {
			os.MkdirAll(replayDir, 0o755)
			path := filepath.Join(replayDir, "bounded_"+sanitize(b.Name)+".txt")
			os.WriteFile(path, []byte(b.Output), 0o644)
			vioLines = append(vioLines, fmt.Sprintf("VIOLATION property=%s replay=%s", p.ID, path))
		}
	}
	assumptions := append([]string{}, globalAssumptions...)
	assumptions = append(assumptions, p.Assumptions...)
	for _, t := range trusted {
		assumptions = append(assumptions, "trusted contract: "+t)
	}
	var boundedEv []map[string]interface{}
	for _, b := range bounded {
		boundedEv = append(boundedEv, map[string]interface{}{"name": b.Name, "bound": b.Bound, "ok": b.OK, "secs": b.Secs, "note": "bounded stand-in: NOT counted in obligations/discharged"})
	}
	cov := map[string]interface{}{
		"obligations":              obligations,
		"discharged":               discharged,
		"checker_cmd":              fmt.Sprintf("/verif/bin/govc check -tier %s %s  (SSA of %s/trzsz -> VCs -> z3-new 5.1.0 | z3-new smt.array.extensional=false | z3-new snf | cvc5 1.0.3 | z3 4.8.12)", tier, p.ID, repo),
		"trusted_base":             trusted,
		"samples":                  samples,
		"functions_checked":        len(out.Funcs),
		"functions_under_contract": underContract,
		"discharged_by_solver":     out.BySolver,
		"discharged_in_joint_query": out.Joint,
		"solver_secs_total":        out.SolverSecs,
		"solver_secs_max":          out.MaxSecs,
		"slowest_claimed":          slowest,
		"smt_bytes_generated":      out.SMTBytes,
		"not_claimed":              map[string]interface{}{"by_kind": notClaimedKinds, "list": notClaimedList, "note": "obligations generated for these functions that are not in the baseline (never counted as proved; assumed where later obligations depend on them)"},
		"undecided_new":            undecidedNew,
		"missing_from_tree":        missing,
		"vacuity_probes":           map[string]interface{}{"total": covTotal, "reachable_sat": covSat, "not_refuted": covUnk, "unreachable": vacuous},
		"uncontracted_callees":     len(out.Uncontr),
		"known_findings_hit":       len(knownHit),
		"function_errors":          errFuncs,
		"bounded":                  boundedEv,
		"integers":                 "mathematical (64-bit unwrapped; narrower types wrapped exactly)",
	}
	ev := map[string]interface{}{
		"property_id": p.ID,
		"tier":        tier,
		"seed":        seed,
		"level":       "proof",
		"coverage":    cov,
		"assumptions": assumptions,
		"wall_s":      time.Since(start).Seconds(),
		"violations":  len(vioLines),
	}
	evDir := env("VERIF_EVIDENCE_DIR", filepath.Join(verif, "evidence"))
	os.MkdirAll(evDir, 0o755)
	b, _ := json.MarshalIndent(ev, "", " ")
	os.WriteFile(filepath.Join(evDir, p.ID+".json"), b, 0o644)

	fmt.Printf("property %s tier=%s: %d/%d baseline obligations discharged over %d functions (%d under contract); %d not claimed; %.1fs\n",
		p.ID, tier, discharged, obligations, len(out.Funcs), len(underContract), len(out.Results)-obligations-covTotal, time.Since(start).Seconds())
	for _, v := range vacuous {
		fmt.Printf("WARNING vacuity: %s is unreachable under its assumptions\n", v)
	}
	for _, r := range knownHit {
		fmt.Printf("KNOWN-FINDING: property=%s %s\n", p.ID, known[r.ID].Text)
	}
	if toolErr != "" {
		fmt.Println("TOOL ERROR:", toolErr)
		return 2
	}
	if len(vioLines) > 0 {
		for _, l := range vioLines {
			fmt.Println(l)
		}
		return 1
	}
	if undecided != "" {
		fmt.Println("UNDECIDED:", undecided)
		return 3
	}
	if obligations == 0 {
		fmt.Println("TOOL ERROR: empty baseline")
		return 2
	}
	return 0
}

type ReplayResult struct {
	Confirmed bool
	Summary   string
	File      string
	Output    string
}

type BoundedResult struct {
	Name, Bound, Output string
	OK                  bool
	Secs                float64
}

var _ sync.Mutex
