package main

import (
	"bytes"
	"context"
	"fmt"
	"os"
	"os/exec"
	"path/filepath"
	"strings"
	"sync"
	"time"
)

type SolverRes struct {
	Answer string // unsat sat unknown timeout error
	Solver string
	Secs   float64
	Output string
}

var solverSem = make(chan struct{}, 16)

var solverOrder = []string{"z3-new", "z3-new-noext", "z3-new-snf", "cvc5", "z3"}

func solverCmd(name, file string, timeout time.Duration) *exec.Cmd {
	ms := int(timeout / time.Millisecond)
	switch name {
	case "z3-new":
		return exec.Command("z3-new", fmt.Sprintf("-t:%d", ms), file)
	case "z3-new-noext":
		// array extensionality off: only weakens the theory, so "unsat" stays sound; avoids
		// z3 giving up early ("incomplete (theory array)") when arrays are arguments of spec functions
		return exec.Command("z3-new", fmt.Sprintf("-t:%d", ms), "smt.array.extensional=false", file)
	case "z3-new-snf":
		// skolem normal form first: the default pipeline does not skolemise existentials nested
		// under boolean structure eagerly, which loses the ground terms E-matching needs
		txt, _ := os.ReadFile(file)
		alt := strings.TrimSuffix(file, ".smt2") + ".snf.smt2"
		os.WriteFile(alt, []byte(strings.Replace(string(txt), "(check-sat)", "(check-sat-using (then snf smt))", 1)), 0o644)
		return exec.Command("z3-new", fmt.Sprintf("-t:%d", ms), fmt.Sprintf("-T:%d", ms/1000+1), "smt.array.extensional=false", alt)
	case "z3":
		return exec.Command("z3", fmt.Sprintf("-t:%d", ms), file)
	case "cvc5":
		return exec.Command("cvc5", "--lang=smt2", fmt.Sprintf("--tlimit=%d", ms), file)
	}
	panic("unknown solver " + name)
}

func runSolver(name, file string, timeout time.Duration) SolverRes {
	return runSolverCtx(context.Background(), name, file, timeout)
}

// race runs every strategy concurrently and returns the first definite answer ("unsat", or
// "sat" from an unweakened strategy); the others are killed.
func race(file string, timeout time.Duration, strategies []string) SolverRes {
	ctx, cancel := context.WithCancel(context.Background())
	defer cancel()
	ch := make(chan SolverRes, len(strategies))
	for _, s := range strategies {
		s := s
		go func() {
			solverSem <- struct{}{}
			defer func() { <-solverSem }()
			if ctx.Err() != nil {
				ch <- SolverRes{Answer: "unknown", Solver: s}
				return
			}
			r := runSolverCtx(ctx, s, file, timeout)
			if r.Answer == "sat" && (strings.Contains(s, "noext") || strings.Contains(s, "snf")) {
				r.Answer = "unknown"
			}
			ch <- r
		}()
	}
	best := SolverRes{Answer: "unknown"}
	for range strategies {
		r := <-ch
		if r.Answer == "unsat" || r.Answer == "sat" {
			return r
		}
		if best.Solver == "" || (r.Answer == "unknown" && best.Answer != "unknown") {
			best = r
		}
	}
	return best
}

func runSolverCtx(parent context.Context, name, file string, timeout time.Duration) SolverRes {
	start := time.Now()
	ctx, cancel := context.WithTimeout(parent, timeout+2*time.Second)
	defer cancel()
	cmd := solverCmd(name, file, timeout)
	cmd2 := exec.CommandContext(ctx, cmd.Path, cmd.Args[1:]...)
	var out bytes.Buffer
	cmd2.Stdout = &out
	cmd2.Stderr = &out
	_ = cmd2.Run()
	secs := time.Since(start).Seconds()
	if name == "z3-new-snf" {
		os.Remove(strings.TrimSuffix(file, ".smt2") + ".snf.smt2")
	}
	text := out.String()
	first := strings.TrimSpace(strings.SplitN(text, "\n", 2)[0])
	ans := "error"
	switch {
	case first == "unsat":
		ans = "unsat"
	case first == "sat":
		ans = "sat"
	case first == "unknown":
		ans = "unknown"
	case first == "timeout" || ctx.Err() != nil || strings.Contains(text, "interrupted by timeout") || strings.Contains(text, "cvc5 interrupted"):
		ans = "timeout"
	}
	if len(text) > 20000 {
		text = text[:20000]
	}
	return SolverRes{ans, name, secs, text}
}

// decide runs the solvers in order until one gives a definite answer.
func decide(file string, timeout time.Duration, all bool) (best SolverRes, runs []SolverRes) {
	best = SolverRes{Answer: "unknown"}
	for _, s := range solverOrder {
		r := runSolver(s, file, timeout)
		if r.Answer == "sat" && strings.Contains(s, "noext") {
			r.Answer = "unknown" // weakened theory: a model proves nothing
		}
		if r.Answer == "sat" && strings.Contains(s, "snf") {
			r.Answer = "unknown"
		}
		runs = append(runs, r)
		if r.Answer == "unsat" || r.Answer == "sat" {
			if best.Answer != "unsat" && best.Answer != "sat" {
				best = r
			} else if best.Answer != r.Answer {
				best = SolverRes{Answer: "conflict", Solver: best.Solver + "/" + r.Solver, Output: "solvers disagree"}
				return
			}
			if !all {
				return
			}
		} else if best.Answer != "unsat" && best.Answer != "sat" {
			if best.Solver == "" || r.Answer == "unknown" {
				best = r
			}
		}
	}
	return
}

type task struct {
	run func()
}

func parallel(n int, tasks []func()) {
	ch := make(chan func())
	var wg sync.WaitGroup
	for i := 0; i < n; i++ {
		wg.Add(1)
		go func() {
			defer wg.Done()
			for t := range ch {
				t()
			}
		}()
	}
	for _, t := range tasks {
		ch <- t
	}
	close(ch)
	wg.Wait()
}

func writeQuery(dir, name, text string) string {
	os.MkdirAll(dir, 0o755)
	p := filepath.Join(dir, sanitize(name)+".smt2")
	if len(filepath.Base(p)) > 200 {
		p = filepath.Join(dir, sanitize(name)[:180]+fmt.Sprintf("_%d.smt2", len(name)))
	}
	os.WriteFile(p, []byte(text), 0o644)
	return p
}
