package main

import (
	"go/token"
	"go/types"

	"golang.org/x/tools/go/ssa"
)

// Private objects.  A call without a contract havocs the heap.  An object that a package-local
// constructor allocated and returned without keeping a reference, and that the caller only ever
// passes as a plain argument to package-local functions which do not retain it either, cannot be
// reached by any other code: a havocing call leaves its fields alone.  Both halves are decided here
// on the SSA form of the current tree (nothing is assumed).

// freshResult: every return of fn yields (as result 0) an object allocated in fn whose address is
// used for nothing but initialising its own fields.
func (g *Gen) freshResult(fn *ssa.Function) bool {
	if fn == nil || fn.Blocks == nil || fn.Signature.Results().Len() != 1 {
		return false
	}
	n := 0
	for _, b := range fn.Blocks {
		for _, ins := range b.Instrs {
			r, ok := ins.(*ssa.Return)
			if !ok {
				continue
			}
			a, ok := r.Results[0].(*ssa.Alloc)
			if !ok || !a.Heap || a.Referrers() == nil {
				return false
			}
			for _, u := range *a.Referrers() {
				switch u := u.(type) {
				case *ssa.Return, *ssa.DebugRef:
				case *ssa.FieldAddr:
					if !fieldAddrPlain(u, a) {
						return false
					}
				default:
					return false
				}
			}
			n++
		}
	}
	return n > 0
}

// fieldAddrPlain: the field address is only loaded from or stored to (never stored itself, never passed on).
func fieldAddrPlain(fa *ssa.FieldAddr, obj ssa.Value) bool {
	if fa.Referrers() == nil {
		return true
	}
	for _, u := range *fa.Referrers() {
		switch u := u.(type) {
		case *ssa.DebugRef:
		case *ssa.UnOp:
			if u.Op != token.MUL {
				return false
			}
		case *ssa.Store:
			if u.Addr != fa || u.Val == obj || u.Val == fa {
				return false
			}
		default:
			return false
		}
	}
	return true
}

// notRetained: v (a pointer to a struct) is used only to reach its own fields, to be compared, or as
// a plain argument of package-local functions that do not retain it.
func (g *Gen) notRetained(v ssa.Value, visiting map[ssa.Value]bool) bool {
	if visiting[v] {
		return true
	}
	visiting[v] = true
	if v.Referrers() == nil {
		return false
	}
	for _, u := range *v.Referrers() {
		switch u := u.(type) {
		case *ssa.DebugRef:
		case *ssa.FieldAddr:
			if u.X != v || !fieldAddrPlain(u, v) {
				return false
			}
		case *ssa.BinOp:
			if u.Op != token.EQL && u.Op != token.NEQ {
				return false
			}
		case *ssa.Call:
			callee := u.Call.StaticCallee()
			if callee == nil || callee.Blocks == nil || callee.Pkg != g.pkg || u.Call.IsInvoke() {
				return false
			}
			if u.Call.Value == v {
				return false
			}
			for i, a := range u.Call.Args {
				if a != v {
					continue
				}
				if i >= len(callee.Params) || !g.notRetained(callee.Params[i], visiting) {
					return false
				}
			}
		default:
			return false
		}
	}
	return true
}

// privateObject reports whether the result of this call is an object no other code can reach,
// and its (flat) struct type.
func (g *Gen) privateObject(call *ssa.Call) (types.Type, bool) {
	callee := call.Call.StaticCallee()
	if callee == nil || callee.Pkg != g.pkg || !g.freshResult(callee) {
		return nil, false
	}
	p, ok := call.Type().Underlying().(*types.Pointer)
	if !ok {
		return nil, false
	}
	st, ok := p.Elem().Underlying().(*types.Struct)
	if !ok {
		return nil, false
	}
	for i := 0; i < st.NumFields(); i++ {
		switch st.Field(i).Type().Underlying().(type) {
		case *types.Struct, *types.Array:
			return nil, false
		}
	}
	if !g.notRetained(call, map[ssa.Value]bool{}) {
		return nil, false
	}
	return p.Elem(), true
}

// addPrivate registers the object at ref (and, recursively, the structs embedded in it) as private.
func (c *FnCtx) addPrivate(ref Term, t types.Type, blk *ssa.BasicBlock) {
	st, ok := t.Underlying().(*types.Struct)
	if !ok {
		return
	}
	c.private = append(c.private, privObj{ref, t, blk})
	for i := 0; i < st.NumFields(); i++ {
		if ft := st.Field(i).Type(); isStruct(ft) {
			c.addPrivate(app("sub", ref, num(int64(i))), ft, blk)
		}
	}
}
