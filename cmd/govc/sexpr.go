package main

import (
	"fmt"
	"strings"
)

// Term is an SMT-LIB s-expression kept as text.
type Term = string

func app(f string, args ...Term) Term {
	if len(args) == 0 {
		return f
	}
	return "(" + f + " " + strings.Join(args, " ") + ")"
}

func num(n int64) Term {
	if n < 0 {
		return fmt.Sprintf("(- %d)", -n)
	}
	return fmt.Sprintf("%d", n)
}

func numStr(s string) Term {
	// s is a decimal integer literal, possibly negative, arbitrary size
	if strings.HasPrefix(s, "-") {
		return "(- " + s[1:] + ")"
	}
	return s
}

func and(ts ...Term) Term {
	var out []Term
	for _, t := range ts {
		if t == "true" || t == "" {
			continue
		}
		if t == "false" {
			return "false"
		}
		out = append(out, t)
	}
	switch len(out) {
	case 0:
		return "true"
	case 1:
		return out[0]
	}
	return app("and", out...)
}

func or(ts ...Term) Term {
	var out []Term
	for _, t := range ts {
		if t == "false" || t == "" {
			continue
		}
		if t == "true" {
			return "true"
		}
		out = append(out, t)
	}
	switch len(out) {
	case 0:
		return "false"
	case 1:
		return out[0]
	}
	return app("or", out...)
}

func not(t Term) Term {
	if t == "true" {
		return "false"
	}
	if t == "false" {
		return "true"
	}
	return app("not", t)
}

func implies(a, b Term) Term {
	if a == "true" {
		return b
	}
	if b == "true" || a == "false" {
		return "true"
	}
	return app("=>", a, b)
}

func eq(a, b Term) Term { return app("=", a, b) }

func ite(c, a, b Term) Term { return app("ite", c, a, b) }

func sanitize(s string) string {
	var b strings.Builder
	for _, r := range s {
		switch {
		case r >= 'a' && r <= 'z', r >= 'A' && r <= 'Z', r >= '0' && r <= '9', r == '_', r == '.', r == '$', r == '!':
			b.WriteRune(r)
		case r == '*':
			b.WriteString("P")
		case r == '[':
			b.WriteString("L")
		case r == ']':
			b.WriteString("R")
		default:
			b.WriteString("_")
		}
	}
	return b.String()
}

func isNumLit(t Term) bool {
	if t == "" {
		return false
	}
	for _, r := range t {
		if r < '0' || r > '9' {
			return false
		}
	}
	return true
}

// plus/minus fold additions of literal zero so that index terms stay syntactically
// equal across re-slicings (helps E-matching).
func plus(a, b Term) Term {
	if a == "0" {
		return b
	}
	if b == "0" {
		return a
	}
	return app("+", a, b)
}

func minus(a, b Term) Term {
	if b == "0" {
		return a
	}
	if a == b && isNumLit(a) {
		return "0"
	}
	return app("-", a, b)
}

// idxAt is the backing-array index of element i of a slice with offset off. It is an
// uninterpreted function (axiom: at(o,i) = o+i) so that quantifier patterns over element
// reads contain no interpreted arithmetic.
func idxAt(off, i Term) Term {
	if off == "0" {
		return i
	}
	return app("at", off, i)
}
