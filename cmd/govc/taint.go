package main

import (
	"go/types"
	"strings"

	"golang.org/x/tools/go/ssa"
)

// allocLimit: the largest allocation a single peer-supplied length field may cause (1 GiB, the
// largest buffer size the -B option accepts).
const allocLimit = "1073741824"

// peer-decoded message types: every numeric field read from them is peer data
var peerStructs = map[string]bool{"prefixHash": true, "prefixHashAck": true, "sourceFile": true, "targetFile": true,
	"transferAction": true, "transferConfig": true}

// functions whose integer results are numbers parsed from received text
var peerFuncs = map[string]bool{"trzszTransfer.recvInteger": true, "strconv.ParseInt": true, "strconv.Atoi": true,
	"strconv.ParseUint": true, "trzszTransfer.recvIntegerForWindows": true}

// peerTainted: backward data-flow inside the function (over-approximate on phis, arithmetic, conversions).
func (c *FnCtx) peerTainted(v ssa.Value, depth int, seen map[ssa.Value]bool) bool {
	if v == nil || seen[v] || depth > 12 {
		return false
	}
	seen[v] = true
	switch x := v.(type) {
	case *ssa.BinOp:
		return c.peerTainted(x.X, depth+1, seen) || c.peerTainted(x.Y, depth+1, seen)
	case *ssa.Convert:
		return c.peerTainted(x.X, depth+1, seen)
	case *ssa.ChangeType:
		return c.peerTainted(x.X, depth+1, seen)
	case *ssa.Phi:
		for _, e := range x.Edges {
			if c.peerTainted(e, depth+1, seen) {
				return true
			}
		}
	case *ssa.Extract:
		return c.peerTainted(x.Tuple, depth+1, seen)
	case *ssa.Call:
		ci := c.resolveCallee(&x.Call)
		if peerFuncs[ci.name] {
			return true
		}
		// package-local helpers: a number computed from peer data (minInt64(num, 1024)) or handed on
		// from a receive function (recvFileNum, recvFileSize) is peer data too
		if fn := x.Call.StaticCallee(); fn != nil && fn.Pkg == c.g.pkg && fn.Blocks != nil {
			for _, a := range x.Call.Args {
				if isInteger(a.Type()) && c.peerTainted(a, depth+1, seen) {
					return true
				}
			}
			return c.returnsPeer(fn, depth+1)
		}
		return false
	case *ssa.UnOp:
		if fa, ok := x.X.(*ssa.FieldAddr); ok {
			st := fa.X.Type().Underlying().(*types.Pointer).Elem()
			if n, ok := st.(*types.Named); ok && peerStructs[n.Obj().Name()] {
				return true
			}
		}
		return false
	case *ssa.Field:
		if n, ok := x.X.Type().(*types.Named); ok && peerStructs[n.Obj().Name()] {
			return true
		}
	}
	return false
}

// returnsPeer: some returned integer of fn derives from peer data (judged inside fn, same rules).
func (c *FnCtx) returnsPeer(fn *ssa.Function, depth int) bool {
	if depth > 6 {
		return false
	}
	cc := &FnCtx{g: c.g, fn: fn}
	for _, b := range fn.Blocks {
		for _, ins := range b.Instrs {
			if r, ok := ins.(*ssa.Return); ok {
				for _, v := range r.Results {
					if isInteger(v.Type()) && cc.peerTainted(v, depth, map[ssa.Value]bool{}) {
						return true
					}
				}
			}
		}
	}
	return false
}

func (c *FnCtx) overflowCheck(x *ssa.BinOp, exact Term) {
	// arithmetic on peer-derived 64-bit values must not overflow (it is not wrapped in the model)
	if !isInteger(x.Type()) {
		return
	}
	lo, hi, bits, _ := intRange(x.Type())
	if bits < 64 {
		return
	}
	if !(c.peerTainted(x.X, 0, map[ssa.Value]bool{}) || c.peerTainted(x.Y, 0, map[ssa.Value]bool{})) {
		return
	}
	o := c.safetyOb("overflow", x.Pos(), "div", stableName(x.X)+x.Op.String()+stableName(x.Y))
	c.assert(o, and(app("<=", numStr(lo), exact), app("<=", exact, numStr(hi))))
}

var _ = strings.HasPrefix
