package main

import (
	"strconv"
	"fmt"
	"go/token"
	"go/types"

	"golang.org/x/tools/go/ssa"
)

func (c *FnCtx) def(ins ssa.Value, t Term) {
	name := c.declare(c.regName(ins), c.sortOf(ins.Type()))
	c.assume(eq(name, t))
	c.vals[ins] = name
}

func (c *FnCtx) defFresh(ins ssa.Value) Term {
	name := c.declare(c.regName(ins), c.sortOf(ins.Type()))
	c.vals[ins] = name
	c.assume(c.tyInv(name, ins.Type()))
	return name
}

// stableName gives a source-level name for an SSA value where one exists (never a register name,
// which would change under unrelated edits).
func stableName(v ssa.Value) string {
	switch x := v.(type) {
	case *ssa.Parameter:
		return x.Name()
	case *ssa.FreeVar:
		return x.Name()
	case *ssa.Const:
		return x.Name()
	case *ssa.Global:
		return x.Name()
	case *ssa.Phi:
		if x.Comment != "" {
			return x.Comment
		}
	}
	return "_"
}

func (c *FnCtx) safetyOb(kind string, pos token.Pos, want string, fallback string) *Oblig {
	txt := c.g.exprTextAt(pos, want)
	if txt == "" {
		txt = fallback
	}
	return c.oblig(fmt.Sprintf("%s/%s:%s", c.name, kind, txt), kind, c.g.posStr(pos), true)
}

func (c *FnCtx) instr(ins ssa.Instruction) {
	switch x := ins.(type) {
	case *ssa.DebugRef:
		return
	case *ssa.Alloc:
		el := x.Type().(*types.Pointer).Elem()
		ref := c.allocRef()
		c.def(x, ref)
		switch u := el.Underlying().(type) {
		case *types.Struct:
			c.zeroObject(c.vals[x], el)
			if !x.Heap {
				// a local whose address go/ssa found not to escape (it is only loaded from, stored to
				// and its fields addressed): no other code can reach it, a havocing call leaves it alone
				c.addPrivate(c.vals[x], el, x.Block())
			}
			// ghost state attached to a zero value of this type (e.g. an empty strings.Builder)
			for _, zg := range c.g.specs.ZeroGhost {
				if c.tt.typeName(el) == sanitize(zg[0]) {
					if comp, _, ok := c.ghostGlobal(zg[1]); ok {
						old := c.get(c.st, comp)
						n := c.freshComp(comp)
						c.assume(eq(n, app("store", old, c.vals[x], numStr(zg[2]))))
						c.set(comp, n)
					}
				}
			}
		case *types.Array:
			comp := c.elemComp(u.Elem())
			old := c.get(c.st, comp)
			n := c.freshComp(comp)
			c.assume(eq(n, app("store", old, c.vals[x], c.zero(el))))
			c.set(comp, n)
		default:
			comp := c.cellComp(el)
			old := c.get(c.st, comp)
			n := c.freshComp(comp)
			c.assume(eq(n, app("store", old, c.vals[x], c.zero(el))))
			c.set(comp, n)
			if !x.Heap {
				c.private = append(c.private, privObj{c.vals[x], el, x.Block()})
			}
		}
	case *ssa.FieldAddr:
		st := x.X.Type().Underlying().(*types.Pointer).Elem()
		ft := st.Underlying().(*types.Struct).Field(x.Field).Type()
		if bl, ok := c.locs[x.X]; ok {
			nl := *bl
			nl.Path = append(append([]pathEl{}, bl.Path...), pathEl{field: x.Field, T: st})
			nl.T = ft
			c.locs[x] = &nl
			return
		}
		ref := c.v(x.X)
		c.nilCheck(x.X, ref, x.Pos())
		if isStruct(ft) {
			c.def(x, app("sub", ref, num(int64(x.Field))))
			return
		}
		comp := c.fieldComp(st, x.Field)
		c.locs[x] = &Loc{Kind: "field", Comp: comp, Ref: ref, T: ft, Root: ft}
	case *ssa.IndexAddr:
		idx := c.v(x.Index)
		switch u := x.X.Type().Underlying().(type) {
		case *types.Slice:
			s := c.v(x.X)
			o := c.safetyOb("index", x.Pos(), "index", stableName(x.X)+"["+stableName(x.Index)+"]")
			o.Peer = o.Peer || c.peerTainted(x.Index, 0, map[ssa.Value]bool{})
			c.assert(o, and(app("<=", "0", idx), app("<", idx, app("s-len", s))))
			c.locs[x] = &Loc{Kind: "elem", Comp: c.elemComp(u.Elem()), Ref: app("s-ref", s), Idx: idxAt(app("s-off", s), idx), T: u.Elem(), Root: u.Elem()}
		case *types.Pointer:
			arr := u.Elem().Underlying().(*types.Array)
			o := c.safetyOb("index", x.Pos(), "index", stableName(x.X)+"["+stableName(x.Index)+"]")
			o.Peer = o.Peer || c.peerTainted(x.Index, 0, map[ssa.Value]bool{})
			c.assert(o, and(app("<=", "0", idx), app("<", idx, num(arr.Len()))))
			if bl, ok := c.locs[x.X]; ok {
				nl := *bl
				nl.Path = append(append([]pathEl{}, bl.Path...), pathEl{field: -1, idx: idx, T: u.Elem()})
				nl.T = arr.Elem()
				c.locs[x] = &nl
				return
			}
			ref := c.v(x.X)
			c.nilCheck(x.X, ref, x.Pos())
			c.locs[x] = &Loc{Kind: "elem", Comp: c.elemComp(arr.Elem()), Ref: ref, Idx: idx, T: arr.Elem(), Root: arr.Elem()}
		default:
			panic(unsupported("IndexAddr on " + x.X.Type().String()))
		}
	case *ssa.Index:
		idx := c.v(x.Index)
		switch u := x.X.Type().Underlying().(type) {
		case *types.Array:
			o := c.safetyOb("index", x.Pos(), "index", stableName(x.X)+"["+stableName(x.Index)+"]")
			o.Peer = o.Peer || c.peerTainted(x.Index, 0, map[ssa.Value]bool{})
			c.assert(o, and(app("<=", "0", idx), app("<", idx, num(u.Len()))))
			c.def(x, app("select", c.v(x.X), idx))
		case *types.Basic: // string
			s := c.v(x.X)
			o := c.safetyOb("index", x.Pos(), "index", stableName(x.X)+"["+stableName(x.Index)+"]")
			o.Peer = o.Peer || c.peerTainted(x.Index, 0, map[ssa.Value]bool{})
			c.assert(o, and(app("<=", "0", idx), app("<", idx, app("str-len", s))))
			c.def(x, app("select", app("str-arr", s), idx))
			c.assume(and(app("<=", "0", c.vals[x]), app("<=", c.vals[x], "255")))
		default:
			panic(unsupported("Index on " + x.X.Type().String()))
		}
	case *ssa.Lookup:
		c.lookup(x)
	case *ssa.Slice:
		c.slice(x)
	case *ssa.UnOp:
		c.unop(x)
	case *ssa.BinOp:
		c.binop(x)
	case *ssa.Store:
		c.storePtr(x.Addr, c.v(x.Val), x.Pos())
	case *ssa.Phi:
		return
	case *ssa.Call:
		c.call(x, &x.Call, x)
	case *ssa.Go:
		// the spawned goroutine is verified separately as a sequential function; the contract of the
		// spawning function may state facts at the spawn ("before go:<callee> assert") and count spawns
		// ("after go:<callee> set g = e")
		if c.spec != nil && (len(c.spec.Hints) > 0 || len(c.spec.Sets) > 0) {
			key := "go:" + c.resolveCallee(&x.Call).name
			c.pointHints(key, x, x.Pos(), nil)
			c.pointSets(key, x, nil)
		}
		return
	case *ssa.Defer:
		c.defers = append(c.defers, x)
	case *ssa.RunDefers:
		c.runDefers(x)
	case *ssa.Extract:
		tu, ok := c.tuples[x.Tuple]
		if !ok {
			panic(unsupported("extract from unknown tuple " + x.Tuple.Name()))
		}
		c.def(x, tu[x.Index])
	case *ssa.Field:
		st := x.X.Type()
		c.def(x, app(c.sortOf(st)+"$f"+fmt.Sprint(x.Field), c.v(x.X)))
	case *ssa.Convert:
		c.convert(x)
	case *ssa.ChangeType:
		c.def(x, c.v(x.X))
	case *ssa.ChangeInterface:
		c.def(x, c.v(x.X))
	case *ssa.MakeInterface:
		c.def(x, c.box(c.v(x.X), x.X.Type()))
	case *ssa.TypeAssert:
		c.typeAssert(x)
	case *ssa.MakeSlice:
		ln, cp := c.v(x.Len), c.v(x.Cap)
		o := c.safetyOb("makeslice", x.Pos(), "make", "make")
		o.Peer = o.Peer || c.peerTainted(x.Len, 0, map[ssa.Value]bool{}) || c.peerTainted(x.Cap, 0, map[ssa.Value]bool{})
		c.assert(o, and(app("<=", "0", ln), app("<=", ln, cp)))
		c.allocBound(x, cp)
		ref := c.allocRef()
		el := x.Type().Underlying().(*types.Slice).Elem()
		comp := c.elemComp(el)
		old := c.get(c.st, comp)
		n := c.freshComp(comp)
		zarr := "((as const (Array Int " + c.sortOf(el) + ")) " + c.zero(el) + ")"
		c.assume(eq(n, app("store", old, ref, zarr)))
		c.storeDefs[n] = storeDef{old, ref, zarr}
		c.set(comp, n)
		c.def(x, app("mk-slice", ref, "0", ln, cp))
	case *ssa.MakeMap:
		ref := c.allocRef()
		mt := x.Type().Underlying().(*types.Map)
		has, _, ln := c.mapComps(mt)
		for _, p := range [][2]string{{has, "((as const (Array " + c.sortOf(mt.Key()) + " Bool)) false)"}, {ln, "0"}} {
			old := c.get(c.st, p[0])
			n := c.freshComp(p[0])
			c.assume(eq(n, app("store", old, ref, p[1])))
			c.set(p[0], n)
		}
		c.def(x, ref)
	case *ssa.MakeChan:
		c.def(x, c.allocRef())
	case *ssa.MakeClosure:
		ref := c.allocRef()
		c.def(x, ref)
	case *ssa.MapUpdate:
		c.mapUpdate(x)
	case *ssa.Range:
		c.def(x, c.freshConst("iter", "Int"))
	case *ssa.Next:
		c.next(x)
	case *ssa.Select:
		c.selectStmt(x)
	case *ssa.Send:
		c.chanSend(x.Chan, x.X, x.Pos(), x)
	case *ssa.Panic:
		c.cur.term = func() Term { return "true" }
	case *ssa.Return:
		bv := c.cur
		e := c.edge(bv, c.exit, 0)
		var res []Term
		for _, r := range x.Results {
			res = append(res, c.v(r))
		}
		for i, r := range res {
			e.items = append(e.items, Item{false, eq(c.results[i], r), nil, ""})
		}
		bv.term = func() Term { return c.edgeFormula(e) }
	case *ssa.Jump:
		bv := c.cur
		e := c.edge(bv, c.blocks[bv.b.Succs[0]], 0)
		bv.term = func() Term { return c.edgeFormula(e) }
	case *ssa.If:
		bv := c.cur
		cond := c.v(x.Cond)
		e0 := c.edge(bv, c.blocks[bv.b.Succs[0]], 0)
		e1 := c.edge(bv, c.blocks[bv.b.Succs[1]], 1)
		bv.term = func() Term {
			return and(implies(cond, c.edgeFormula(e0)), implies(not(cond), c.edgeFormula(e1)))
		}
	case *ssa.SliceToArrayPointer:
		panic(unsupported("SliceToArrayPointer"))
	default:
		panic(unsupported(fmt.Sprintf("instruction %T", ins)))
	}
}

func (c *FnCtx) allocBound(x *ssa.MakeSlice, size Term) {
	// C12: an allocation sized by a number that comes from the peer must be bounded
	if c.peerTainted(x.Cap, 0, map[ssa.Value]bool{}) || c.peerTainted(x.Len, 0, map[ssa.Value]bool{}) {
		o := c.safetyOb("allocbound", x.Pos(), "make", "make")
		c.assert(o, app("<=", size, allocLimit))
	}
}

// ---------- slices / strings

func (c *FnCtx) slice(x *ssa.Slice) {
	opt := func(v ssa.Value, d Term) Term {
		if v == nil {
			return d
		}
		return c.v(v)
	}
	switch u := x.X.Type().Underlying().(type) {
	case *types.Slice:
		s := c.v(x.X)
		lo := opt(x.Low, "0")
		hi := opt(x.High, app("s-len", s))
		mx := opt(x.Max, app("s-cap", s))
		o := c.safetyOb("slice", x.Pos(), "slice", stableName(x.X)+"[:]")
		o.Peer = o.Peer || c.peerTainted(x.Low, 0, map[ssa.Value]bool{}) || c.peerTainted(x.High, 0, map[ssa.Value]bool{}) || c.peerTainted(x.Max, 0, map[ssa.Value]bool{})
		c.assert(o, and(app("<=", "0", lo), app("<=", lo, hi), app("<=", hi, mx), app("<=", mx, app("s-cap", s))))
		c.def(x, app("mk-slice", app("s-ref", s), plus(app("s-off", s), lo), minus(hi, lo), minus(mx, lo)))
		if lo != "0" {
			// element j of the sub-slice is element lo+j of the original: lets quantified facts stated
			// over one view be used through the other (a consequence of at(o,i) = o+i, not an assumption)
			c.assume(fmt.Sprintf("(forall ((q$j Int)) (! (= (at %s q$j) (at %s (+ %s q$j))) :pattern ((at %s q$j))))",
				app("s-off", c.vals[x]), app("s-off", s), lo, app("s-off", c.vals[x])))
		}
	case *types.Basic:
		s := c.v(x.X)
		lo := opt(x.Low, "0")
		hi := opt(x.High, app("str-len", s))
		o := c.safetyOb("slice", x.Pos(), "slice", stableName(x.X)+"[:]")
		o.Peer = o.Peer || c.peerTainted(x.Low, 0, map[ssa.Value]bool{}) || c.peerTainted(x.High, 0, map[ssa.Value]bool{}) || c.peerTainted(x.Max, 0, map[ssa.Value]bool{})
		c.assert(o, and(app("<=", "0", lo), app("<=", lo, hi), app("<=", hi, app("str-len", s))))
		c.def(x, app("mk-str", app("arrshift", app("str-arr", s), lo), minus(hi, lo)))
	case *types.Pointer:
		arr := u.Elem().Underlying().(*types.Array)
		n := num(arr.Len())
		lo := opt(x.Low, "0")
		hi := opt(x.High, n)
		mx := opt(x.Max, n)
		o := c.safetyOb("slice", x.Pos(), "slice", stableName(x.X)+"[:]")
		o.Peer = o.Peer || c.peerTainted(x.Low, 0, map[ssa.Value]bool{}) || c.peerTainted(x.High, 0, map[ssa.Value]bool{}) || c.peerTainted(x.Max, 0, map[ssa.Value]bool{})
		c.assert(o, and(app("<=", "0", lo), app("<=", lo, hi), app("<=", hi, mx), app("<=", mx, n)))
		if _, ok := c.locs[x.X]; ok {
			// array embedded in another object: contents not tracked through the slice
			c.warn("slice of embedded array %s: result havocked", x.X.Name())
			r := c.defFresh(x)
			c.assume(eq(app("s-len", r), minus(hi, lo)))
			return
		}
		ref := c.v(x.X)
		c.def(x, app("mk-slice", ref, lo, minus(hi, lo), minus(mx, lo)))
	default:
		panic(unsupported("Slice on " + x.X.Type().String()))
	}
}

func (c *FnCtx) lookup(x *ssa.Lookup) {
	switch u := x.X.Type().Underlying().(type) {
	case *types.Basic: // string index
		s := c.v(x.X)
		idx := c.v(x.Index)
		o := c.safetyOb("index", x.Pos(), "index", stableName(x.X)+"["+stableName(x.Index)+"]")
		o.Peer = o.Peer || c.peerTainted(x.Index, 0, map[ssa.Value]bool{})
		c.assert(o, and(app("<=", "0", idx), app("<", idx, app("str-len", s))))
		c.def(x, app("select", app("str-arr", s), idx))
		c.assume(and(app("<=", "0", c.vals[x]), app("<=", c.vals[x], "255")))
	case *types.Map:
		m := c.v(x.X)
		k := c.mapKey(c.v(x.Index), u.Key())
		has, val, _ := c.mapComps(u)
		h := app("select", app("select", c.get(c.st, has), m), k)
		v := app("select", app("select", c.get(c.st, val), m), k)
		hz := and(not(eq(m, "0")), h)
		vv := ite(hz, v, c.zero(u.Elem()))
		if x.CommaOk {
			a := c.freshConst(c.regName(x)+"$v", c.sortOf(u.Elem()))
			b := c.freshConst(c.regName(x)+"$ok", "Bool")
			c.assume(eq(a, vv))
			c.assume(eq(b, hz))
			c.assume(c.tyInv(a, u.Elem()))
			c.tuples[x] = []Term{a, b}
		} else {
			c.def(x, vv)
			c.assume(c.tyInv(c.vals[x], u.Elem()))
		}
	default:
		panic(unsupported("Lookup on " + x.X.Type().String()))
	}
}

// mapKey canonicalises keys (strings are compared by content, so map them through an
// uninterpreted injective-on-content key function).
func (c *FnCtx) mapKey(k Term, t types.Type) Term {
	return k
}

func (c *FnCtx) mapComps(mt *types.Map) (has, val, ln string) {
	ks, vs := c.sortOf(mt.Key()), c.sortOf(mt.Elem())
	key := c.tt.typeName(mt)
	has = c.comp("MapHas$"+key, "(Array Int (Array "+ks+" Bool))")
	val = c.comp("MapVal$"+key, "(Array Int (Array "+ks+" "+vs+"))")
	ln = c.comp("MapLen$"+key, "(Array Int Int)")
	return
}

func (c *FnCtx) mapUpdate(x *ssa.MapUpdate) {
	mt := x.Map.Type().Underlying().(*types.Map)
	m := c.v(x.Map)
	o := c.safetyOb("mapnil", x.Pos(), "index", stableName(x.Map))
	c.assert(o, not(eq(m, "0")))
	k := c.mapKey(c.v(x.Key), mt.Key())
	v := c.v(x.Value)
	has, val, ln := c.mapComps(mt)
	oh, ov, ol := c.get(c.st, has), c.get(c.st, val), c.get(c.st, ln)
	was := app("select", app("select", oh, m), k)
	nh, nv, nl := c.freshComp(has), c.freshComp(val), c.freshComp(ln)
	c.assume(eq(nh, app("store", oh, m, app("store", app("select", oh, m), k, "true"))))
	c.assume(eq(nv, app("store", ov, m, app("store", app("select", ov, m), k, v))))
	c.assume(eq(nl, app("store", ol, m, app("+", app("select", ol, m), ite(was, "0", "1")))))
	c.set(has, nh)
	c.set(val, nv)
	c.set(ln, nl)
}

func (c *FnCtx) next(x *ssa.Next) {
	tup := x.Type().(*types.Tuple)
	ok := c.freshConst(c.regName(x)+"$ok", "Bool")
	var ts []Term
	ts = append(ts, ok)
	for i := 1; i < tup.Len(); i++ {
		t := tup.At(i).Type()
		if b, isB := t.(*types.Basic); isB && b.Kind() == types.Invalid {
			ts = append(ts, "0")
			continue
		}
		a := c.freshConst(fmt.Sprintf("%s$%d", c.regName(x), i), c.sortOf(t))
		c.assume(c.tyInv(a, t))
		ts = append(ts, a)
	}
	if x.IsString {
		// key is a byte offset inside the string
		rng := x.Iter.(*ssa.Range)
		s := c.v(rng.X)
		c.assume(implies(ok, and(app("<=", "0", ts[1]), app("<", ts[1], app("str-len", s)))))
	} else if rng, isR := x.Iter.(*ssa.Range); isR {
		if mt, isM := rng.X.Type().Underlying().(*types.Map); isM {
			m := c.v(rng.X)
			has, val, _ := c.mapComps(mt)
			h := app("select", app("select", c.get(c.st, has), m), ts[1])
			c.assume(implies(ok, and(not(eq(m, "0")), h)))
			if len(ts) > 2 && ts[2] != "0" {
				c.assume(implies(ok, eq(ts[2], app("select", app("select", c.get(c.st, val), m), ts[1]))))
			}
		}
	}
	c.tuples[x] = ts
}

// ---------- unary / binary

func (c *FnCtx) unop(x *ssa.UnOp) {
	switch x.Op {
	case token.MUL:
		if fv, ok := x.X.(*ssa.FreeVar); ok {
			if t, ok := c.frozenFreeVar(fv); ok {
				c.def(x, t)
				return
			}
		}
		if a, ok := x.X.(*ssa.Alloc); ok {
			if st := frozenCellStore(a); st != nil && storeBefore(st, x) {
				// a captured local that is assigned once (a spilled parameter) and only ever read, here and in
				// every closure that captures it: a read yields the assigned value whatever calls did in between
				c.def(x, c.v(st.Val))
				c.assume(c.tyInv(c.vals[x], x.Type()))
				return
			}
		}
		t := c.loadPtr(x.X, c.st, true, x.Pos())
		c.def(x, t)
		c.assume(c.tyInv(c.vals[x], x.Type()))
	case token.NOT:
		c.def(x, not(c.v(x.X)))
	case token.SUB:
		if isFloat(x.Type()) {
			c.def(x, app("-", c.v(x.X)))
		} else {
			c.def(x, c.wrap(app("-", c.v(x.X)), x.Type()))
		}
	case token.XOR:
		_, hi, bits, signed := intRange(x.Type())
		if signed {
			c.def(x, app("-", app("-", c.v(x.X)), "1"))
		} else {
			_ = bits
			c.def(x, app("-", numStr(hi), c.v(x.X)))
		}
	case token.ARROW:
		c.chanRecv(x)
	default:
		panic(unsupported("unop " + x.Op.String()))
	}
}

func (c *FnCtx) strEq(a, b Term, x, y ssa.Value) Term {
	lit := func(v ssa.Value) (string, bool) {
		if k, ok := v.(*ssa.Const); ok && k.Value != nil && isString(k.Type()) {
			return constantString(k), true
		}
		return "", false
	}
	if s, ok := lit(y); ok && len(s) <= 24 {
		return c.strEqLit(a, s)
	}
	if s, ok := lit(x); ok && len(s) <= 24 {
		return c.strEqLit(b, s)
	}
	return app("streq", a, b)
}

func (c *FnCtx) strEqLit(a Term, s string) Term {
	// both sides literal: decide now (keeps per-format contracts of Sprintf & co. small)
	for lit, t := range c.strLits {
		if t == a {
			if lit == s {
				return "true"
			}
			return "false"
		}
	}
	parts := []Term{eq(app("str-len", a), num(int64(len(s))))}
	for i := 0; i < len(s); i++ {
		parts = append(parts, eq(app("select", app("str-arr", a), num(int64(i))), num(int64(s[i]))))
	}
	return and(parts...)
}

func (c *FnCtx) binop(x *ssa.BinOp) {
	a, b := c.v(x.X), c.v(x.Y)
	xt := x.X.Type()
	switch x.Op {
	case token.EQL, token.NEQ:
		var r Term
		switch {
		case isString(xt):
			r = c.strEq(a, b, x.X, x.Y)
		case isSlice(xt):
			// only comparison with nil is legal
			if k, ok := x.Y.(*ssa.Const); ok && k.Value == nil {
				r = eq(app("s-ref", a), "0")
			} else {
				r = eq(app("s-ref", b), "0")
			}
		default:
			r = eq(a, b)
		}
		if x.Op == token.NEQ {
			r = not(r)
		}
		c.def(x, r)
		return
	case token.LSS, token.LEQ, token.GTR, token.GEQ:
		op := map[token.Token]string{token.LSS: "<", token.LEQ: "<=", token.GTR: ">", token.GEQ: ">="}[x.Op]
		if isString(xt) {
			c.declareFun("strcmp", []string{"Str", "Str"}, "Int")
			c.def(x, app(op, app("strcmp", a, b), "0"))
			return
		}
		c.def(x, app(op, a, b))
		return
	}
	t := x.Type()
	if isString(t) && x.Op == token.ADD {
		// concatenation is a function of its operands (strcat), so specifications can talk about it
		c.def(x, app("strcat", a, b))
		return
	}
	if isFloat(t) {
		op := map[token.Token]string{token.ADD: "+", token.SUB: "-", token.MUL: "*", token.QUO: "/"}[x.Op]
		if op == "" {
			panic(unsupported("float op " + x.Op.String()))
		}
		if x.Op == token.QUO {
			// float division by zero does not panic (Inf/NaN); modelled as an arbitrary real
			r := c.defFresh(x)
			c.assume(implies(not(eq(b, "0.0")), eq(r, app("/", a, b))))
			return
		}
		c.def(x, app(op, a, b))
		return
	}
	if !isInteger(t) {
		if isBoolean(t) {
			switch x.Op {
			case token.AND:
				c.def(x, and(a, b))
				return
			case token.OR:
				c.def(x, or(a, b))
				return
			}
		}
		panic(unsupported("binop " + x.Op.String() + " on " + t.String()))
	}
	switch x.Op {
	case token.ADD:
		c.overflowCheck(x, app("+", a, b))
		c.def(x, c.wrap(app("+", a, b), t))
	case token.SUB:
		c.overflowCheck(x, app("-", a, b))
		c.def(x, c.wrap(app("-", a, b), t))
	case token.MUL:
		c.overflowCheck(x, app("*", a, b))
		c.def(x, c.wrap(app("*", a, b), t))
	case token.QUO:
		o := c.safetyOb("div", x.Pos(), "div", stableName(x.X)+"/"+stableName(x.Y))
		o.Peer = o.Peer || c.peerTainted(x.Y, 0, map[ssa.Value]bool{})
		c.assert(o, not(eq(b, "0")))
		if k, ok := constInt(x.Y); ok && k > 0 {
			_, _, _, signed := intRange(t)
			if !signed {
				c.def(x, app("div", a, b))
			} else {
				c.def(x, ite(app(">=", a, "0"), app("div", a, b), app("-", app("div", app("-", a), b))))
			}
		} else {
			c.def(x, c.wrap(app("godiv", a, b), t))
		}
	case token.REM:
		o := c.safetyOb("div", x.Pos(), "div", stableName(x.X)+"%"+stableName(x.Y))
		o.Peer = o.Peer || c.peerTainted(x.Y, 0, map[ssa.Value]bool{})
		c.assert(o, not(eq(b, "0")))
		if k, ok := constInt(x.Y); ok && k > 0 {
			_, _, _, signed := intRange(t)
			if !signed {
				c.def(x, app("mod", a, b))
			} else {
				c.def(x, ite(app(">=", a, "0"), app("mod", a, b), app("-", app("mod", app("-", a), b))))
			}
		} else {
			c.def(x, app("gorem", a, b))
		}
	case token.SHL:
		if k, ok := constInt(x.Y); ok && k >= 0 && k < 63 {
			c.def(x, c.wrap(app("*", a, num(int64(1)<<uint(k))), t))
		} else {
			r := c.defFresh(x)
			_ = r
		}
	case token.SHR:
		if k, ok := constInt(x.Y); ok && k >= 0 && k < 63 {
			c.def(x, app("div", a, num(int64(1)<<uint(k))))
		} else {
			r := c.defFresh(x)
			_, _, _, signed := intRange(t)
			if !signed {
				c.assume(app("<=", r, a))
			}
		}
	case token.AND:
		if k, ok := constInt(x.Y); ok && k >= 0 && (k&(k+1)) == 0 {
			c.def(x, app("mod", a, num(k+1)))
		} else if k, ok := constInt(x.X); ok && k >= 0 && (k&(k+1)) == 0 {
			c.def(x, app("mod", b, num(k+1)))
		} else {
			r := c.defFresh(x)
			c.assume(eq(r, c.bitop("and", a, b, t)))
			_, _, _, signed := intRange(t)
			if !signed {
				c.assume(and(app("<=", r, a), app("<=", r, b)))
			} else if k, ok := constInt(x.Y); ok && k >= 0 {
				c.assume(and(app("<=", "0", r), app("<=", r, num(k))))
			}
		}
	case token.OR, token.XOR, token.AND_NOT:
		if av, err1 := strconv.ParseInt(a, 10, 64); err1 == nil && av >= 0 {
			if bv, err2 := strconv.ParseInt(b, 10, 64); err2 == nil && bv >= 0 {
				// both operands are non-negative literals: the exact value
				v := map[token.Token]int64{token.OR: av | bv, token.XOR: av ^ bv, token.AND_NOT: av &^ bv}[x.Op]
				c.def(x, c.wrap(num(v), t))
				return
			}
		}
		r := c.defFresh(x)
		c.assume(eq(r, c.bitop(map[token.Token]string{token.OR: "or", token.XOR: "xor", token.AND_NOT: "andnot"}[x.Op], a, b, t)))
		_, _, _, signed := intRange(t)
		if !signed && x.Op == token.AND_NOT {
			c.assume(app("<=", r, a))
		}
		if x.Op == token.OR {
			c.assume(implies(and(app(">=", a, "0"), app(">=", b, "0")), and(app(">=", r, a), app(">=", r, b))))
		}
	default:
		panic(unsupported("binop " + x.Op.String()))
	}
}

func (c *FnCtx) convert(x *ssa.Convert) {
	from, to := x.X.Type(), x.Type()
	a := c.v(x.X)
	switch {
	case isInteger(from) && isInteger(to):
		c.def(x, c.convertInt(a, from, to))
	case isInteger(from) && isFloat(to):
		c.def(x, app("to_real", a))
	case isFloat(from) && isFloat(to):
		c.def(x, a)
	case isFloat(from) && isInteger(to):
		r := c.defFresh(x)
		c.assume(implies(and(app(">=", a, "0.0"), app("<", a, "9223372036854775807.0")), eq(r, app("to_int", a))))
		c.assume(implies(and(app("<", a, "0.0"), app(">", a, "(- 9223372036854775807.0)")), eq(r, app("-", app("to_int", app("-", a))))))
	case isString(from) && isSlice(to):
		el := to.Underlying().(*types.Slice).Elem()
		if b, ok := el.Underlying().(*types.Basic); ok && b.Kind() == types.Uint8 {
			ref := c.allocRef()
			comp := c.elemComp(el)
			old := c.get(c.st, comp)
			n := c.freshComp(comp)
			c.assume(eq(n, app("store", old, ref, app("str-arr", a))))
			c.set(comp, n)
			c.def(x, app("mk-slice", ref, "0", app("str-len", a), app("str-len", a)))
			c.assume(app("bytes-in-range", app("str-arr", a), app("str-len", a)))
			if cv := x; readOnlyBytes(cv) {
				// the bytes of a string, only ever handed to read-only searches of package bytes: nobody can
				// write this array, it holds the string's bytes wherever it is looked at later
				c.immutArr = append(c.immutArr, immutArr{ref, app("str-arr", a), comp, cv.Block()})
			}
		} else {
			// []rune(s)
			ref := c.allocRef()
			r := c.defFresh(x)
			c.assume(and(eq(app("s-ref", r), ref), eq(app("s-off", r), "0"), app("<=", app("s-len", r), app("str-len", a))))
			// contents of the new array unknown; every existing array untouched
			comp := c.elemComp(el)
			old := c.get(c.st, comp)
			n := c.freshComp(comp)
			fa := c.freshConst("runes", "(Array Int "+c.sortOf(el)+")")
			c.assume(eq(n, app("store", old, ref, fa)))
			c.set(comp, n)
		}
	case isSlice(from) && isString(to):
		el := from.Underlying().(*types.Slice).Elem()
		r := c.defFresh(x)
		if b, ok := el.Underlying().(*types.Basic); ok && b.Kind() == types.Uint8 {
			c.assume(eq(app("str-len", r), app("s-len", a)))
			c.assume(eq(app("str-arr", r), app("arrshift", c.inner(c.get(c.st, c.elemComp(el)), app("s-ref", a)), app("s-off", a))))
		}
	case isInteger(from) && isString(to):
		r := c.defFresh(x)
		c.assume(and(app("<=", "1", app("str-len", r)), app("<=", app("str-len", r), "4")))
		// string(rune) for ASCII
		c.assume(implies(and(app("<=", "0", a), app("<", a, "128")), and(eq(app("str-len", r), "1"), eq(app("select", app("str-arr", r), "0"), a))))
	case isString(from) && isString(to):
		c.def(x, a)
	default:
		if types.Identical(from.Underlying(), to.Underlying()) || (isRefLike(from) && isRefLike(to)) {
			c.def(x, a)
			return
		}
		c.warn("conversion %s -> %s havocked", from, to)
		c.defFresh(x)
	}
}

// ---------- interfaces

func (c *FnCtx) box(v Term, t types.Type) Term {
	if isInterface(t) {
		return v
	}
	sort := c.sortOf(t)
	name := "box$" + c.tt.typeName(t)
	if !c.boxDecl[name] {
		c.boxDecl[name] = true
		c.declareFun(name, []string{sort}, "Int")
		c.declareFun("un"+name, []string{"Int"}, sort)
		id := c.tt.typeID(t)
		c.axioms = append(c.axioms,
			fmt.Sprintf("(forall ((x %s)) (! (and (= (un%s (%s x)) x) (= (typeof (%s x)) %d) (not (= (%s x) 0))) :pattern ((%s x))))", sort, name, name, name, id, name, name))
	}
	return app(name, v)
}

func (c *FnCtx) unbox(i Term, t types.Type) Term {
	c.box(c.zero(t), t) // ensure declared
	return app("unbox$"+c.tt.typeName(t), i)
}

func (c *FnCtx) typeAssert(x *ssa.TypeAssert) {
	i := c.v(x.X)
	at := x.AssertedType
	var ok, val Term
	if isInterface(at) {
		okc := c.freshConst(c.regName(x)+"$ok", "Bool")
		c.assume(implies(okc, not(eq(i, "0"))))
		ok = okc
		val = i
	} else {
		ok = and(not(eq(i, "0")), eq(app("typeof", i), num(int64(c.tt.typeID(at)))))
		val = c.unbox(i, at)
	}
	if x.CommaOk {
		a := c.freshConst(c.regName(x)+"$v", c.sortOf(at))
		b := c.freshConst(c.regName(x)+"$okv", "Bool")
		c.assume(eq(b, ok))
		c.assume(eq(a, ite(b, val, c.zero(at))))
		c.assume(c.tyInv(a, at))
		c.tuples[x] = []Term{a, b}
		return
	}
	o := c.safetyOb("typeassert", x.Pos(), "typeassert", stableName(x.X)+".("+at.String()+")")
	c.assert(o, ok)
	c.def(x, val)
	c.assume(c.tyInv(c.vals[x], at))
}

// frozenCellStore returns the single store into a heap cell that is otherwise only read (in this
// function and, transitively, in the closures capturing it); nil if the cell may be written elsewhere.
func frozenCellStore(a *ssa.Alloc) *ssa.Store {
	if !a.Heap {
		return nil
	}
	switch a.Type().(*types.Pointer).Elem().Underlying().(type) {
	case *types.Struct, *types.Array:
		return nil
	}
	var st *ssa.Store
	var readOnly func(refs []ssa.Instruction, v ssa.Value, top bool) bool
	readOnly = func(refs []ssa.Instruction, v ssa.Value, top bool) bool {
		for _, r := range refs {
			switch r := r.(type) {
			case *ssa.UnOp:
				if r.Op != token.MUL || r.X != v {
					return false
				}
			case *ssa.DebugRef:
			case *ssa.Store:
				if !top || r.Addr != v || r.Val == v || st != nil {
					return false
				}
				st = r
			case *ssa.MakeClosure:
				fn := r.Fn.(*ssa.Function)
				for i, b := range r.Bindings {
					if b == v {
						fv := fn.FreeVars[i]
						if fv.Referrers() == nil || !readOnly(*fv.Referrers(), fv, false) {
							return false
						}
					}
				}
			default:
				return false
			}
		}
		return true
	}
	if a.Referrers() == nil || !readOnly(*a.Referrers(), a, true) || st == nil {
		return nil
	}
	// the store sits in the block that creates the cell (the declaration "x := e"): every other use of
	// this cell value is either later in that block or in a block it dominates
	if st.Block() != a.Block() {
		return nil
	}
	return st
}

// storeBefore: the store (in the entry block) is executed before the load on every path.
func storeBefore(st *ssa.Store, ld ssa.Instruction) bool {
	if ld.Block() != st.Block() {
		return st.Block().Dominates(ld.Block())
	}
	for _, i := range st.Block().Instrs {
		if i == st {
			return true
		}
		if i == ld {
			return false
		}
	}
	return false
}

// frozenBinding: the value a captured variable of fn was given, if the variable is assigned exactly
// once (where it is declared) and only read afterwards - in the declaring function and in every
// closure capturing it.  Such a variable is a constant for the whole life of the closure.
func frozenBinding(fn *ssa.Function, idx int) (ssa.Value, bool) {
	parent := fn.Parent()
	if parent == nil {
		return nil, false
	}
	for _, b := range parent.Blocks {
		for _, ins := range b.Instrs {
			mc, ok := ins.(*ssa.MakeClosure)
			if !ok || mc.Fn != fn || idx >= len(mc.Bindings) {
				continue
			}
			switch bv := mc.Bindings[idx].(type) {
			case *ssa.Alloc:
				if st := frozenCellStore(bv); st != nil && storeBefore(st, mc) {
					return st.Val, true
				}
			case *ssa.FreeVar:
				for i, pfv := range parent.FreeVars {
					if pfv == bv {
						return frozenBinding(parent, i)
					}
				}
			}
			return nil, false
		}
	}
	return nil, false
}

// frozenFreeVar: the constant standing for a frozen captured variable inside the closure (declared
// once; non-nil where the captured value is a parameter assumed non-nil or a fresh object).
func (c *FnCtx) frozenFreeVar(fv *ssa.FreeVar) (Term, bool) {
	if t, ok := c.frozenFV[fv]; ok {
		return t, t != ""
	}
	c.frozenFV[fv] = ""
	idx := -1
	for i, f := range c.fn.FreeVars {
		if f == fv {
			idx = i
		}
	}
	el := fv.Type().(*types.Pointer).Elem()
	switch el.Underlying().(type) {
	case *types.Struct, *types.Array:
		return "", false
	}
	val, ok := frozenBinding(c.fn, idx)
	if idx < 0 || !ok {
		return "", false
	}
	t := c.declare("fz$"+sanitize(fv.Name()), c.sortOf(el))
	c.frozenFV[fv] = t
	c.axioms = append(c.axioms, c.tyInv0(t, el))
	nonNil := false
	switch v := val.(type) {
	case *ssa.Alloc, *ssa.MakeChan, *ssa.MakeMap, *ssa.MakeClosure, *ssa.MakeInterface, *ssa.Function:
		nonNil = true
	case *ssa.Parameter:
		// same assumption as for the parameter in its own function: pointer, interface and function
		// parameters are non-nil unless that function's contract declares them nilable
		switch v.Type().Underlying().(type) {
		case *types.Pointer, *types.Interface, *types.Signature:
			nonNil = v.Type().String() != "error"
			if ps := c.g.specs.Funcs[c.g.fnName(v.Parent())]; ps != nil && ps.Nilable[v.Name()] {
				nonNil = false
			}
		}
	}
	if nonNil {
		c.axioms = append(c.axioms, not(eq(t, "0")))
	}
	return t, true
}

// readOnlyBytes: the []byte made from a string by this conversion is used for nothing but as an argument of
// bytes.Index / LastIndex / Contains / HasPrefix / HasSuffix / Equal / IndexAny (which only read their arguments).
func readOnlyBytes(cv *ssa.Convert) bool {
	refs := cv.Referrers()
	if refs == nil {
		return false
	}
	for _, r := range *refs {
		switch r := r.(type) {
		case *ssa.DebugRef:
		case *ssa.Call:
			f := r.Call.StaticCallee()
			if f == nil || f.Pkg == nil || f.Pkg.Pkg.Path() != "bytes" || r.Call.Value == ssa.Value(cv) {
				return false
			}
			switch f.Name() {
			case "Index", "LastIndex", "Contains", "HasPrefix", "HasSuffix", "Equal", "IndexAny":
			default:
				return false
			}
		default:
			return false
		}
	}
	return true
}
