package trzsz

// Replay / bounded stand-in harness for C08 and C02 (injected with `go test -overlay`).
// An in-memory sender/receiver pair runs the real sendFiles / recvFiles with overwrite on.
// Bound: protocols {2, 3, 4} x base64 x previous destination content in {absent, empty, shorter prefix,
// identical, longer with the source as prefix, longer diverging, same length diverging at the first byte,
// same length diverging at the last byte} x source sizes {0, 1, 4096} (VERIF_BOUND >= 2: also a source
// of 10 MiB + 7 bytes with divergence just before / on / just after the 10 MiB block boundary).
// Checked: both ends report success and the destination is byte-identical to the source; a bystander
// file in the destination directory is untouched.

import (
	"bytes"
	"fmt"
	"os"
	"path/filepath"
	"strconv"
	"testing"
	"time"
)

type verifPeerWriter struct{ peer **trzszTransfer }

func (w verifPeerWriter) Write(p []byte) (int, error) {
	buf := append([]byte(nil), p...)
	(*w.peer).addReceivedData(buf, false)
	return len(p), nil
}

func verifC08Pair(protocol int) (*trzszTransfer, *trzszTransfer) {
	var sender, receiver *trzszTransfer
	sender = newTransfer(verifPeerWriter{&receiver}, nil, false, nil)
	receiver = newTransfer(verifPeerWriter{&sender}, nil, false, nil)
	for _, t := range []*trzszTransfer{sender, receiver} {
		t.transferConfig.Protocol = protocol
		t.transferConfig.Overwrite = true
		t.transferConfig.Timeout = 20
		t.transferConfig.Newline = "\n"
		t.transferConfig.MaxBufSize = 10 * 1024 * 1024
	}
	return sender, receiver
}

func verifC08Bound() int {
	if v, err := strconv.Atoi(os.Getenv("VERIF_BOUND")); err == nil && v > 0 {
		return v
	}
	return 1
}

func verifC08Content(n int, seed byte) []byte {
	b := make([]byte, n)
	x := uint32(seed) + 1
	for i := range b {
		x = x*1664525 + 1013904223
		b[i] = byte(x >> 24)
	}
	return b
}

func verifC08Case(t *testing.T, protocol int, src []byte, prev []byte, hasPrev bool, what string) {
	root := t.TempDir()
	srcDir := filepath.Join(root, "src")
	dstDir := filepath.Join(root, "dst")
	os.MkdirAll(srcDir, 0755)
	os.MkdirAll(dstDir, 0755)
	srcPath := filepath.Join(srcDir, "data.bin")
	if err := os.WriteFile(srcPath, src, 0644); err != nil {
		t.Fatal(err)
	}
	os.WriteFile(filepath.Join(dstDir, "bystander"), []byte("keep me"), 0644)
	if hasPrev {
		os.WriteFile(filepath.Join(dstDir, "data.bin"), prev, 0644)
	}
	sender, receiver := verifC08Pair(protocol)
	srcFiles, err := checkPathsReadable([]string{srcPath}, false)
	if err != nil {
		t.Fatal(err)
	}
	type res struct {
		names []string
		err   error
	}
	sc, rc := make(chan res, 1), make(chan res, 1)
	go func() { n, e := sender.sendFiles(srcFiles, nil); sc <- res{n, e} }()
	go func() { n, e := receiver.recvFiles(dstDir, nil); rc <- res{n, e} }()
	var sr, rr res
	for i := 0; i < 2; i++ {
		select {
		case sr = <-sc:
		case rr = <-rc:
		case <-time.After(60 * time.Second):
			t.Fatalf("C08: %s: transfer did not finish", what)
		}
	}
	if sr.err != nil || rr.err != nil {
		// a reported failure is not a C08/C02 violation in itself, but on an undamaged channel it must not happen
		t.Fatalf("C08: %s: transfer failed on an undamaged channel: sender %v receiver %v", what, sr.err, rr.err)
	}
	got, err := os.ReadFile(filepath.Join(dstDir, "data.bin"))
	if err != nil {
		t.Fatalf("C08: %s: %v", what, err)
	}
	if !bytes.Equal(got, src) {
		d := 0
		for d < len(got) && d < len(src) && got[d] == src[d] {
			d++
		}
		t.Fatalf("C08: %s: success reported but destination (%d bytes) differs from source (%d bytes), first difference at %d", what, len(got), len(src), d)
	}
	if b, _ := os.ReadFile(filepath.Join(dstDir, "bystander")); string(b) != "keep me" {
		t.Fatalf("C08: %s: bystander file touched", what)
	}
}

func TestVerifC08Overwrite(t *testing.T) {
	sizes := []int{0, 1, 4096}
	for _, protocol := range []int{2, 3, 4} {
		for _, n := range sizes {
			src := verifC08Content(n, 1)
			type pv struct {
				name string
				b    []byte
				has  bool
			}
			prevs := []pv{{"absent", nil, false}, {"empty", []byte{}, true}, {"identical", append([]byte(nil), src...), true},
				{"longer with source as prefix", append(append([]byte(nil), src...), verifC08Content(1500, 9)...), true},
				{"longer diverging", verifC08Content(n+700, 7), true}}
			if n > 1 {
				prevs = append(prevs, pv{"shorter prefix", append([]byte(nil), src[:n/2]...), true})
				d1 := append([]byte(nil), src...)
				d1[0] ^= 0x55
				prevs = append(prevs, pv{"same length, first byte differs", d1, true})
				d2 := append([]byte(nil), src...)
				d2[n-1] ^= 0x55
				prevs = append(prevs, pv{"same length, last byte differs", d2, true})
			}
			for _, p := range prevs {
				verifC08Case(t, protocol, src, p.b, p.has, fmt.Sprintf("protocol %d, source %d bytes, previous destination %s", protocol, n, p.name))
			}
		}
	}
	if verifC08Bound() >= 2 {
		const block = 10 * 1024 * 1024
		src := verifC08Content(block+7, 3)
		for _, protocol := range []int{3, 4} {
			for _, at := range []int{block - 1, block, block + 1} {
				prev := append([]byte(nil), src...)
				prev[at] ^= 0x55
				verifC08Case(t, protocol, src, prev, true, fmt.Sprintf("protocol %d, source 10MiB+7, previous destination differs at %d", protocol, at))
			}
			longer := append(append([]byte(nil), src...), verifC08Content(4096, 5)...)
			verifC08Case(t, protocol, src, longer, true, fmt.Sprintf("protocol %d, source 10MiB+7, previous destination longer with source as prefix", protocol))
		}
	}
}
