package trzsz

// Replay / bounded stand-in harness for C09 and C07 (injected with `go test -overlay`).
// Bound: path lists of length <= VERIF_BOUND (default 3) over the element alphabet below (plain names, dot names, names with separators, traversals, a name with glob metacharacters) x file/dir x
// overwrite on/off x "the path id was registered before with the one-level name d" x plain-name mode;
// for each case the real unmarshalSourceFile + createDirOrFile / createFile run in a temporary
// directory that has a sibling file and directory next to the destination, and an existing file inside.
// Checked: nothing outside the destination is created, changed or recorded for clean-up (C09); without
// overwrite the existing file inside the destination keeps its content (C07).

import (
	"encoding/json"
	"os"
	"path/filepath"
	"strconv"
	"strings"
	"testing"
)

func verifC09Bound() int {
	if v, err := strconv.Atoi(os.Getenv("VERIF_BOUND")); err == nil && v > 0 {
		return v
	}
	return 3
}

func verifC09Snapshot(t *testing.T, root, dest string) map[string]string {
	snap := map[string]string{}
	filepath.Walk(root, func(p string, info os.FileInfo, err error) error {
		if err != nil {
			return nil
		}
		if p == dest || strings.HasPrefix(p, dest+string(filepath.Separator)) {
			return nil
		}
		if info.IsDir() {
			snap[p] = "<dir>"
		} else {
			b, _ := os.ReadFile(p)
			snap[p] = string(b)
		}
		return nil
	})
	return snap
}

func verifC09Case(t *testing.T, list []string, isDir, overwrite, preRegister, plain bool) {
	root := t.TempDir()
	dest := filepath.Join(root, "dest")
	if err := os.MkdirAll(filepath.Join(root, "sibling"), 0755); err != nil {
		t.Fatal(err)
	}
	os.MkdirAll(dest, 0755)
	os.WriteFile(filepath.Join(root, "victim.txt"), []byte("keep"), 0644)
	os.WriteFile(filepath.Join(root, "sibling", "x"), []byte("keep"), 0644)
	existing := []string{"a", "a[1]", "a[1].0"}
	for _, n := range existing {
		os.WriteFile(filepath.Join(dest, n), []byte("old"), 0644)
	}
	before := verifC09Snapshot(t, root, dest)

	tr := newTransfer(nil, nil, false, nil)
	tr.transferConfig.Overwrite = overwrite
	tr.transferConfig.Directory = !plain
	desc := func() string {
		return strconv.Quote(strings.Join(list, "|")) + " dir=" + strconv.FormatBool(isDir) + " overwrite=" + strconv.FormatBool(overwrite) +
			" preRegistered=" + strconv.FormatBool(preRegister) + " plain=" + strconv.FormatBool(plain)
	}
	if plain {
		name := list[0]
		if !isValidFileName(name) {
			return
		}
		f, _, err := tr.createFile(dest, name, true, nil)
		if err == nil && f != nil {
			f.Close()
		}
	} else {
		if preRegister {
			f, _, err := tr.createDirOrFile(dest, &sourceFile{PathID: 7, RelPath: []string{"d"}, IsDir: true}, false)
			if err == nil && f != nil {
				f.Close()
			}
		}
		js, _ := json.Marshal(map[string]interface{}{"path_id": 7, "path_name": list, "is_dir": isDir})
		src, err := unmarshalSourceFile(string(js))
		if err != nil {
			return // refused: fine
		}
		f, _, err := tr.createDirOrFile(dest, src, false)
		if err == nil && f != nil {
			f.Close()
		}
	}
	for _, p := range tr.createdFiles {
		rel, err := filepath.Rel(dest, p)
		if err != nil || rel == ".." || strings.HasPrefix(rel, ".."+string(filepath.Separator)) || filepath.IsAbs(rel) {
			t.Fatalf("C09: clean-up list holds a path outside the destination: %q for %s", p, desc())
		}
	}
	after := verifC09Snapshot(t, root, dest)
	if len(after) != len(before) {
		t.Fatalf("C09: something was created or removed outside the destination for %s: before %v after %v", desc(), before, after)
	}
	for p, c := range before {
		if after[p] != c {
			t.Fatalf("C09: %q outside the destination changed for %s", p, desc())
		}
	}
	if !overwrite {
		for _, n := range existing {
			if b, err := os.ReadFile(filepath.Join(dest, n)); err != nil || string(b) != "old" {
				t.Fatalf("C07: existing file dest/%s was touched without overwrite for %s (now %q, err %v)", n, desc(), b, err)
			}
		}
	}
}

func TestVerifC09Containment(t *testing.T) {
	elems := []string{"a", "b", "d", "..", ".", "", "a/b", "d/e", "/abs", "../victim.txt", "../../victim.txt", "a.0", "a[1]"}
	bound := verifC09Bound()
	var rec func(list []string)
	rec = func(list []string) {
		if len(list) > 0 {
			for _, isDir := range []bool{false, true} {
				for _, overwrite := range []bool{false, true} {
					for _, pre := range []bool{false, true} {
						verifC09Case(t, list, isDir, overwrite, pre, false)
					}
				}
			}
			if len(list) == 1 {
				verifC09Case(t, list, false, false, false, true)
				verifC09Case(t, list, false, true, false, true)
			}
		}
		if len(list) == bound {
			return
		}
		for _, e := range elems {
			rec(append(append([]string{}, list...), e))
		}
	}
	rec(nil)
}
