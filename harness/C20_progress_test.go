package trzsz

// Replay / bounded stand-in harness for C20 (injected with `go test -overlay`).
// Renders the REAL progress line for a grid of widths, names, counts, sizes and steps and measures the
// visible width with go-runewidth after removing SGR / cursor sequences.
// Bound: widths 5..VERIF_BOUND*40 (default 5..120), 9 names (ASCII, CJK, emoji, combining, empty, long),
// file counts {1,3}, 8 (size, step) pairs including zero, negative and step > size.

import (
	"bytes"
	"os"
	"regexp"
	"strconv"
	"strings"
	"testing"
	"time"

	"github.com/mattn/go-runewidth"
)

var verifAnsi = regexp.MustCompile("\x1b\\[[0-9;?]*[A-Za-z]")

func verifC20Bound() int {
	if v, err := strconv.Atoi(os.Getenv("VERIF_BOUND")); err == nil && v > 0 {
		return v
	}
	return 3
}

type verifProgressSink struct{ bytes.Buffer }

func TestVerifProgressLineFits(t *testing.T) {
	names := []string{"", "a", "file.txt", strings.Repeat("long-name-", 9), "中文文件名测试目录文件", strings.Repeat("日本語", 12), "emoji😀😀😀.bin", "é́café", "tab\tname"}
	pairs := [][2]int64{{0, 0}, {100, 0}, {100, 50}, {100, 100}, {100, 200}, {-5, 3}, {1 << 62, 1 << 61}, {3, 1 << 62}}
	maxW := verifC20Bound() * 40
	for w := 5; w <= maxW; w++ {
		for _, name := range names {
			for _, cnt := range []int64{1, 3} {
				for _, pr := range pairs {
					func() {
						defer func() {
							if r := recover(); r != nil {
								t.Fatalf("width %d name %q count %d size %d step %d: rendering panicked: %v", w, name, cnt, pr[0], pr[1], r)
							}
						}()
						sink := &verifProgressSink{}
						p := newTextProgressBar(sink, int32(w), 0, "", "")
						p.onNum(cnt)
						p.onName(name)
						p.onSize(pr[0])
						sink.Reset()
						p.onStep(pr[1])
						out := sink.String()
						out = strings.TrimPrefix(out, "\r")
						vis := verifAnsi.ReplaceAllString(out, "")
						if got := runewidth.StringWidth(vis); got > w {
							t.Fatalf("width %d name %q count %d size %d step %d: line is %d cells wide: %q", w, name, cnt, pr[0], pr[1], got, vis)
						}
						if i := strings.Index(vis, "%"); i >= 0 {
							j := i
							for j > 0 && vis[j-1] >= '0' && vis[j-1] <= '9' {
								j--
							}
							if v, err := strconv.Atoi(vis[j:i]); err == nil && (v < 0 || v > 100 || (j > 0 && vis[j-1] == '-')) {
								t.Fatalf("width %d size %d step %d: percentage %q out of range in %q", w, pr[0], pr[1], vis[j:i+1], vis)
							}
						}
					}()
				}
			}
		}
	}
}

func TestVerifEllipsis(t *testing.T) {
	names := []string{"abcdefghijklmnopqrstuvwxyz0123456789", strings.Repeat("中文", 30), strings.Repeat("😀", 20), strings.Repeat("é", 40)}
	for _, name := range names {
		for max := 3; max <= 60; max++ {
			s, w := getEllipsisString(name, max)
			if w > max || runewidth.StringWidth(s) > w {
				t.Fatalf("getEllipsisString(%q, %d) = %q, %d (real width %d)", name, max, s, w, runewidth.StringWidth(s))
			}
		}
	}
}

var _ = time.Now
