package trzsz

// Replay / bounded stand-in harness for C02 (injected with `go test -overlay`).
// An in-memory sender/receiver pair runs the real sendFiles / recvFiles; the sender->receiver stream is
// damaged at one position per run.
// Bound: protocols {1, 2, 4} x base64 (compression off via incompressible content) x source of 300
// pseudo-random bytes (VERIF_BOUND >= 2: also 65536 and 131072 bytes, damage in the last 1.5 KiB only) x
// damage = one byte substituted (x ^ 0x01, and for base64 letters the neighbouring letter) at every
// STRIDE-th position of the stream (stride 5 for bound 1, 1 for bound >= 2 on the small file) plus
// every position of the last 64 bytes; timeout 1 s.
// Checked (C02): a side that returns success does so only if the destination file is byte-identical to
// the source.  (A reported error is always acceptable.)

import (
	"bytes"
	"fmt"
	"os"
	"path/filepath"
	"strconv"
	"sync"
	"testing"
	"time"
)

type verifDamageWriter struct {
	peer   **trzszTransfer
	mu     *sync.Mutex
	count  *int
	at     int
	subst  func(byte) byte
	record *[]byte
}

func (w verifDamageWriter) Write(p []byte) (int, error) {
	buf := append([]byte(nil), p...)
	w.mu.Lock()
	for i := range buf {
		if *w.count == w.at && w.subst != nil {
			buf[i] = w.subst(buf[i])
		}
		*w.count++
	}
	if w.record != nil {
		*w.record = append(*w.record, buf...)
	}
	w.mu.Unlock()
	(*w.peer).addReceivedData(buf, false)
	return len(p), nil
}

type verifPlainWriter struct{ peer **trzszTransfer }

func (w verifPlainWriter) Write(p []byte) (int, error) {
	buf := append([]byte(nil), p...)
	(*w.peer).addReceivedData(buf, false)
	return len(p), nil
}

func verifC02Bound() int {
	if v, err := strconv.Atoi(os.Getenv("VERIF_BOUND")); err == nil && v > 0 {
		return v
	}
	return 1
}

func verifC02Content(n int) []byte {
	b := make([]byte, n)
	x := uint32(12345)
	for i := range b {
		x = x*1664525 + 1013904223
		b[i] = byte(x >> 24)
	}
	return b
}

// one run; at < 0 means undamaged. Returns the number of stream bytes the sender wrote.
func verifC02Run(t *testing.T, protocol int, src []byte, at int, subst func(byte) byte, what string) int {
	root := t.TempDir()
	srcPath := filepath.Join(root, "data.bin")
	dstDir := filepath.Join(root, "dst")
	os.MkdirAll(dstDir, 0755)
	os.WriteFile(srcPath, src, 0644)
	var sender, receiver *trzszTransfer
	var mu sync.Mutex
	count := 0
	sender = newTransfer(verifDamageWriter{&receiver, &mu, &count, at, subst, nil}, nil, false, nil)
	receiver = newTransfer(verifPlainWriter{&sender}, nil, false, nil)
	for _, tr := range []*trzszTransfer{sender, receiver} {
		tr.transferConfig.Protocol = protocol
		tr.transferConfig.Overwrite = true
		tr.transferConfig.Timeout = 1
		tr.transferConfig.Newline = "\n"
		tr.transferConfig.MaxBufSize = 10 * 1024 * 1024
	}
	srcFiles, err := checkPathsReadable([]string{srcPath}, false)
	if err != nil {
		t.Fatal(err)
	}
	sc, rc := make(chan error, 1), make(chan error, 1)
	var snames, rnames []string
	go func() { n, e := sender.sendFiles(srcFiles, nil); snames = n; sc <- e }()
	go func() { n, e := receiver.recvFiles(dstDir, nil); rnames = n; rc <- e }()
	var serr, rerr error
	for i := 0; i < 2; i++ {
		select {
		case serr = <-sc:
			if serr != nil {
				receiver.stopTransferringFiles(false)
			}
		case rerr = <-rc:
			if rerr != nil {
				sender.stopTransferringFiles(false)
			}
		case <-time.After(30 * time.Second):
			t.Fatalf("C02: %s: transfer did not end", what)
		}
	}
	got, _ := os.ReadFile(filepath.Join(dstDir, "data.bin"))
	same := bytes.Equal(got, src)
	if at < 0 {
		if serr != nil || rerr != nil || !same {
			t.Fatalf("C02 harness: %s: undamaged transfer failed (sender %v, receiver %v, identical %v)", what, serr, rerr, same)
		}
	} else {
		// success "for a file": the side returned without error and names the file among those transferred
		if rerr == nil && len(rnames) > 0 && !same {
			t.Fatalf("C02: %s: receiver reported success but the destination (%d bytes) differs from the source (%d bytes)", what, len(got), len(src))
		}
		if serr == nil && len(snames) > 0 && !same {
			t.Fatalf("C02: %s: sender reported success but the destination (%d bytes) differs from the source (%d bytes)", what, len(got), len(src))
		}
	}
	mu.Lock()
	defer mu.Unlock()
	return count
}

func verifNeighbour(b byte) byte {
	switch {
	case b >= 'A' && b < 'Z', b >= 'a' && b < 'z', b >= '0' && b < '9':
		return b + 1
	case b == 'Z':
		return 'Y'
	case b == 'z':
		return 'y'
	case b == '9':
		return '8'
	}
	return b ^ 0x01
}

func TestVerifC02Damage(t *testing.T) {
	bound := verifC02Bound()
	type cfg struct {
		size, stride, tailOnly int
	}
	cfgs := []cfg{{300, 5, 0}}
	if bound >= 2 {
		cfgs = []cfg{{300, 1, 0}, {65536, 1, 1536}, {131072, 1, 1536}}
	}
	for _, c := range cfgs {
		src := verifC02Content(c.size)
		for _, protocol := range []int{1, 2, 4} {
			total := verifC02Run(t, protocol, src, -1, nil, fmt.Sprintf("protocol %d, %d bytes, undamaged", protocol, c.size))
			from := 0
			if c.tailOnly > 0 && total > c.tailOnly {
				from = total - c.tailOnly
			}
			for at := from; at < total; at++ {
				if (at-from)%c.stride != 0 && at < total-64 {
					continue
				}
				for si, subst := range []func(byte) byte{func(b byte) byte { return b ^ 0x01 }, verifNeighbour} {
					verifC02Run(t, protocol, src, at, subst, fmt.Sprintf("protocol %d, %d bytes, stream byte %d of %d substituted (rule %d)", protocol, c.size, at, total, si))
				}
			}
		}
	}
}
