package trzsz

// Replay / bounded stand-in harness for C04 (injected with `go test -overlay`).
// Bound: payloads of length <= VERIF_BOUND (default 4) over {0xEE, '~', 'a', CR, 0x8d, '1', 'A'} x both built-in
// tables x all segmentations of the escaped stream x output buffer sizes 1..3.

import (
	"bytes"
	"encoding/json"
	"io"
	"os"
	"strconv"
	"testing"
)

func verifEscBound() int {
	if v, err := strconv.Atoi(os.Getenv("VERIF_BOUND")); err == nil && v > 0 {
		return v
	}
	return 4
}

func verifTable(t *testing.T, all bool) *escapeTable {
	js, err := json.Marshal(getEscapeChars(all))
	if err != nil {
		t.Fatal(err)
	}
	var tbl escapeTable
	if err := json.Unmarshal(js, &tbl); err != nil {
		t.Fatal(err)
	}
	return &tbl
}

func verifProtected(tbl *escapeTable, b byte) bool {
	return b != escapeLeaderByte && tbl.escapeCodes[b] != nil
}

type verifChunkReader struct {
	chunks [][]byte
}

func (r *verifChunkReader) Read(p []byte) (int, error) {
	for len(r.chunks) > 0 && len(r.chunks[0]) == 0 {
		r.chunks = r.chunks[1:]
	}
	if len(r.chunks) == 0 {
		return 0, io.EOF
	}
	n := copy(p, r.chunks[0])
	r.chunks[0] = r.chunks[0][n:]
	return n, nil
}

type verifSink struct{ bytes.Buffer }

func (s *verifSink) Close() error { return nil }

func verifPayloads(maxLen int, f func(p []byte)) {
	alpha := []byte{0xEE, '~', 'a', 0x0d, 0x8d, '1', 'A'}
	var rec func(cur []byte)
	rec = func(cur []byte) {
		f(cur)
		if len(cur) == maxLen {
			return
		}
		for _, c := range alpha {
			rec(append(append([]byte{}, cur...), c))
		}
	}
	rec(nil)
}

func verifSplits(s []byte, f func(chunks [][]byte)) {
	n := len(s)
	if n == 0 {
		f(nil)
		return
	}
	for mask := 0; mask < 1<<(n-1); mask++ {
		var chunks [][]byte
		start := 0
		for i := 0; i < n-1; i++ {
			if mask&(1<<i) != 0 {
				chunks = append(chunks, append([]byte{}, s[start:i+1]...))
				start = i + 1
			}
		}
		chunks = append(chunks, append([]byte{}, s[start:]...))
		f(chunks)
	}
}

func TestVerifEscapeRoundTrip(t *testing.T) {
	for _, all := range []bool{false, true} {
		tbl := verifTable(t, all)
		verifPayloads(verifEscBound(), func(p []byte) {
			esc := escapeData(p, tbl)
			for _, b := range esc {
				if verifProtected(tbl, b) {
					t.Fatalf("table(all=%v) payload %x: protected byte %#x in escaped form %x", all, p, b, esc)
				}
			}
			got, rem, err := unescapeData(esc, tbl, nil)
			if err != nil || len(rem) != 0 || !bytes.Equal(got, p) {
				t.Fatalf("table(all=%v) payload %x: round trip gave %x rem %x err %v", all, p, got, rem, err)
			}
		})
	}
}

func TestVerifEscapeWriter(t *testing.T) {
	for _, all := range []bool{false, true} {
		tbl := verifTable(t, all)
		verifPayloads(verifEscBound(), func(p []byte) {
			sink := &verifSink{}
			w := newEscapeWriter(tbl, sink)
			n, err := w.Write(p)
			if err != nil || n != len(p) {
				t.Fatalf("payload %x: Write = %d, %v", p, n, err)
			}
			want := escapeData(p, tbl)
			if !bytes.Equal(sink.Bytes(), want) {
				t.Fatalf("table(all=%v) payload %x: writer put %x on the wire, escaped form is %x", all, p, sink.Bytes(), want)
			}
			for _, b := range sink.Bytes() {
				if verifProtected(tbl, b) {
					t.Fatalf("table(all=%v) payload %x: protected byte %#x written: %x", all, p, b, sink.Bytes())
				}
			}
		})
	}
}

func TestVerifEscapeReaderSplits(t *testing.T) {
	bound := verifEscBound()
	if bound > 4 {
		bound = 4
	}
	for _, all := range []bool{false, true} {
		tbl := verifTable(t, all)
		verifPayloads(bound, func(p []byte) {
			esc := escapeData(p, tbl)
			verifSplits(esc, func(chunks [][]byte) {
				for outSize := 1; outSize <= 3; outSize++ {
					cp := make([][]byte, len(chunks))
					for i := range chunks {
						cp[i] = append([]byte{}, chunks[i]...)
					}
					r := newEscapeReader(tbl, &verifChunkReader{cp})
					var got []byte
					buf := make([]byte, outSize)
					for {
						n, err := r.Read(buf)
						got = append(got, buf[:n]...)
						if err == io.EOF {
							break
						}
						if err != nil {
							t.Fatalf("table(all=%v) payload %x split %x out %d: error %v", all, p, chunks, outSize, err)
						}
						if n == 0 {
							t.Fatalf("table(all=%v) payload %x split %x out %d: zero read without error", all, p, chunks, outSize)
						}
					}
					if !bytes.Equal(got, p) {
						t.Fatalf("table(all=%v) payload %x split %x out %d: decoded %x", all, p, chunks, outSize, got)
					}
				}
			})
		})
	}
}

func TestVerifUnknownPairRejected(t *testing.T) {
	for _, all := range []bool{false, true} {
		tbl := verifTable(t, all)
		for c := 0; c < 256; c++ {
			if tbl.unescapeCodes[byte(c)] != nil {
				continue
			}
			_, _, err := unescapeData([]byte{'a', escapeLeaderByte, byte(c), 'b'}, tbl, nil)
			if err == nil {
				t.Fatalf("table(all=%v): undefined pair EE %02x was not rejected", all, c)
			}
		}
	}
}

func TestVerifBuiltinTablesWellFormed(t *testing.T) {
	for _, all := range []bool{false, true} {
		tbl := verifTable(t, all)
		if len(tbl.escapeCodes) != 256 || len(tbl.unescapeCodes) != 256 || tbl.escapeCodes[escapeLeaderByte] == nil || tbl.escapeCodes['~'] == nil {
			t.Fatalf("table(all=%v) shape", all)
		}
		for b := 0; b < 256; b++ {
			e := tbl.escapeCodes[b]
			if e == nil {
				continue
			}
			if u := tbl.unescapeCodes[*e]; u == nil || *u != byte(b) {
				t.Fatalf("table(all=%v): unescape does not invert escape at %#x", all, b)
			}
			if *e != escapeLeaderByte && tbl.escapeCodes[*e] != nil {
				t.Fatalf("table(all=%v): code byte %#x of %#x is itself protected", all, *e, b)
			}
		}
		if all {
			for _, b := range []byte{0x0d, 0x10, 0x11, 0x13, 0x18, 0x1b, 0x1d, 0x8d, 0x90, 0x91, 0x93, 0x9d} {
				if tbl.escapeCodes[b] == nil {
					t.Fatalf("-e table does not protect %#x", b)
				}
			}
		}
	}
}
