package trzsz

// Replay / bounded stand-in harness for C15 (injected with `go test -overlay`).
// Bound: source trees built from file sizes in {0, 1, 5, 64, 100} (all ordered pairs, one of them inside
// a sub-directory, plus an empty directory) x read sizes {1, 2, 7, 64, 100, 4096} x write cut sizes
// {1, 3, 64, 4096} (VERIF_BOUND >= 2 adds triples of files); for each: the real newArchiveReader /
// archiveFileReader.Read feeds the real archiveFileWriter.Write through writeAll.
// Checked: bytes produced == announced size; the receiving tree equals the source tree; and - separately -
// a file truncated after the scan (to 0, to a read-size boundary, to the middle of a chunk) makes the
// reader report an error instead of producing fewer bytes than announced.

import (
	"bytes"
	"fmt"
	"io"
	"os"
	"path/filepath"
	"strconv"
	"strings"
	"testing"
)

func verifC15Bound() int {
	if v, err := strconv.Atoi(os.Getenv("VERIF_BOUND")); err == nil && v > 0 {
		return v
	}
	return 1
}

func verifC15Tree(t *testing.T, sizes []int) (string, []string) {
	root := t.TempDir()
	src := filepath.Join(root, "src")
	os.MkdirAll(filepath.Join(src, "sub"), 0755)
	os.MkdirAll(filepath.Join(src, "empty_dir"), 0755)
	var files []string
	for i, n := range sizes {
		p := filepath.Join(src, fmt.Sprintf("f%d", i))
		if i%2 == 1 {
			p = filepath.Join(src, "sub", fmt.Sprintf("f%d", i))
		}
		content := strings.Repeat(string(rune('a'+i)), n)
		if n > 2 {
			content = content[:n-1] + "\n"
		}
		if err := os.WriteFile(p, []byte(content), 0644); err != nil {
			t.Fatal(err)
		}
		files = append(files, p)
	}
	return src, files
}

func verifC15Compare(t *testing.T, a, b, what string) {
	filepath.Walk(a, func(p string, info os.FileInfo, err error) error {
		if err != nil {
			t.Fatalf("%s: %v", what, err)
		}
		rel, _ := filepath.Rel(a, p)
		q := filepath.Join(b, rel)
		st, err := os.Stat(q)
		if err != nil {
			t.Fatalf("%s: %s missing at the receiver", what, rel)
		}
		if info.IsDir() != st.IsDir() {
			t.Fatalf("%s: %s differs in kind", what, rel)
		}
		if !info.IsDir() {
			x, _ := os.ReadFile(p)
			y, _ := os.ReadFile(q)
			if !bytes.Equal(x, y) {
				t.Fatalf("%s: content of %s differs (%d vs %d bytes)", what, rel, len(x), len(y))
			}
		}
		return nil
	})
}

func verifC15Archive(t *testing.T, src string) (*trzszTransfer, *sourceFile) {
	srcFiles, err := checkPathsReadable([]string{src}, true)
	if err != nil {
		t.Fatal(err)
	}
	tr := newTransfer(nil, nil, false, nil)
	tr.transferConfig.Protocol = kProtocolVersion4
	arch := tr.archiveSourceFiles(srcFiles)
	if len(arch) != 1 {
		t.Fatalf("expected one archive entry, got %d", len(arch))
	}
	return tr, arch[0]
}

func verifC15RoundTrip(t *testing.T, sizes []int, readN, writeN int) {
	what := fmt.Sprintf("sizes=%v read=%d write=%d", sizes, readN, writeN)
	src, _ := verifC15Tree(t, sizes)
	tr, arch := verifC15Archive(t, src)
	reader, err := tr.newArchiveReader(arch)
	if err != nil {
		t.Fatalf("%s: %v", what, err)
	}
	announced := reader.getSize()
	var stream bytes.Buffer
	for {
		buf := make([]byte, readN)
		n, err := reader.Read(buf)
		if n > 0 {
			stream.Write(buf[:n])
		}
		if err == io.EOF {
			break
		}
		if err != nil {
			t.Fatalf("%s: read: %v", what, err)
		}
		if stream.Len() > int(announced)+1 {
			break
		}
	}
	reader.Close()
	if int64(stream.Len()) != announced {
		t.Fatalf("C15: %s: announced %d bytes, produced %d", what, announced, stream.Len())
	}
	js, _ := arch.marshalSourceFile()
	dstSrc, err := unmarshalSourceFile(js)
	if err != nil {
		t.Fatalf("%s: %v", what, err)
	}
	dest := t.TempDir()
	rt := newTransfer(nil, nil, false, nil)
	rt.transferConfig.Protocol = kProtocolVersion4
	writer, name, err := rt.createDirOrFile(dest, dstSrc, true)
	if err != nil {
		t.Fatalf("%s: %v", what, err)
	}
	data := stream.Bytes()
	for off := 0; off < len(data); off += writeN {
		end := off + writeN
		if end > len(data) {
			end = len(data)
		}
		if err := writeAll(writer, data[off:end]); err != nil {
			t.Fatalf("C15: %s: write: %v", what, err)
		}
	}
	writer.Close()
	verifC15Compare(t, src, filepath.Join(dest, name), "C15: "+what)
}

func verifC15Shrink(t *testing.T, size, newSize, readN int) {
	what := fmt.Sprintf("file of %d truncated to %d, reads of %d", size, newSize, readN)
	src, files := verifC15Tree(t, []int{size, 3})
	tr, arch := verifC15Archive(t, src)
	reader, err := tr.newArchiveReader(arch)
	if err != nil {
		t.Fatalf("%s: %v", what, err)
	}
	announced := reader.getSize()
	if err := os.Truncate(files[0], int64(newSize)); err != nil {
		t.Fatal(err)
	}
	produced := int64(0)
	for {
		buf := make([]byte, readN)
		n, err := reader.Read(buf)
		produced += int64(n)
		if err == io.EOF {
			break
		}
		if err != nil {
			reader.Close()
			return // reported: fine
		}
	}
	reader.Close()
	if produced != announced {
		t.Fatalf("C15: %s: no error, but %d bytes announced and %d produced", what, announced, produced)
	}
	t.Fatalf("C15: %s: a shrunk file went unnoticed", what)
}

func TestVerifC15Archive(t *testing.T) {
	sizes := []int{0, 1, 5, 64, 100}
	reads := []int{1, 2, 7, 64, 100, 4096}
	writes := []int{1, 3, 64, 4096}
	var combos [][]int
	for _, a := range sizes {
		for _, b := range sizes {
			combos = append(combos, []int{a, b})
		}
	}
	if verifC15Bound() >= 2 {
		for _, a := range sizes {
			for _, b := range sizes {
				for _, c := range []int{0, 5, 64} {
					combos = append(combos, []int{a, b, c})
				}
			}
		}
	}
	for _, c := range combos {
		for _, r := range reads {
			for _, w := range writes {
				verifC15RoundTrip(t, c, r, w)
			}
		}
	}
	for _, r := range []int{1, 7, 64, 100, 4096} {
		for _, ns := range []int{0, 1, 64, 99} {
			verifC15Shrink(t, 100, ns, r)
		}
	}
}
