package trzsz

// Replay / bounded stand-in harness for C03 (injected into package trzsz with `go test -overlay`).
// It evaluates the postconditions of the buffer contracts concretely on the REAL functions for
// every stream over a small alphabet and every segmentation into non-empty chunks.
// Bound: streams of length <= verifBufMaxLen over {a, b, LF, CR, ETX}; all 2^(n-1) chunkings.

import (
	"bytes"
	"fmt"
	"os"
	"strconv"
	"testing"
)

func verifBufMaxLen() int {
	if v, err := strconv.Atoi(os.Getenv("VERIF_BOUND")); err == nil && v > 0 {
		return v
	}
	return 5
}

func verifChunkings(s []byte, f func(chunks [][]byte)) {
	n := len(s)
	if n == 0 {
		f(nil)
		return
	}
	for mask := 0; mask < 1<<(n-1); mask++ {
		var chunks [][]byte
		start := 0
		for i := 0; i < n-1; i++ {
			if mask&(1<<i) != 0 {
				chunks = append(chunks, append([]byte{}, s[start:i+1]...))
				start = i + 1
			}
		}
		chunks = append(chunks, append([]byte{}, s[start:]...))
		f(chunks)
	}
}

func verifStreams(alpha []byte, maxLen int, f func(s []byte)) {
	var rec func(cur []byte)
	rec = func(cur []byte) {
		f(cur)
		if len(cur) == maxLen {
			return
		}
		for _, c := range alpha {
			rec(append(append([]byte{}, cur...), c))
		}
	}
	rec(nil)
}

// reference: strict line reader on a whole stream from position p
func verifRefStrict(s []byte, p int) (line []byte, next int, interrupted bool, ok bool) {
	for q := p; q < len(s); q++ {
		if s[q] == '\n' {
			if bytes.IndexByte(s[p:q], 3) >= 0 {
				return nil, 0, true, true
			}
			return s[p:q], q + 1, false, true
		}
	}
	return nil, 0, false, false // incomplete: the real reader would block
}

func verifNewBuffer(chunks [][]byte) *trzszBuffer {
	// same structure as newTrzszBuffer() with a smaller queue (allocation cost only)
	b := &trzszBuffer{bufCh: make(chan []byte, 64), stopCh: make(chan bool, 1)}
	for _, c := range chunks {
		b.addBuffer(c)
	}
	return b
}

func TestVerifReadLineStrict(t *testing.T) {
	alpha := []byte{'a', 'b', '\n', '\r', 3}
	verifStreams(alpha, verifBufMaxLen(), func(s []byte) {
		verifChunkings(s, func(chunks [][]byte) {
			b := verifNewBuffer(chunks)
			p := 0
			for {
				want, next, intr, ok := verifRefStrict(s, p)
				if !ok {
					return // would block; nothing more to compare
				}
				if intr {
					// Ctrl-C inside the line: the reader must report an error once it has seen it
					_, err := b.readLine(false, nil)
					if err == nil {
						t.Fatalf("stream %q chunks %q at %d: Ctrl-C not reported", s, chunks, p)
					}
					return
				}
				got, err := b.readLine(false, nil)
				if err != nil {
					// an ETX later in the same chunk may legitimately interrupt only if it precedes the LF
					t.Fatalf("stream %q chunks %q at %d: unexpected error %v", s, chunks, p, err)
				}
				if !bytes.Equal(got, want) {
					t.Fatalf("stream %q chunks %q at %d: got line %q want %q", s, chunks, p, got, want)
				}
				p = next
			}
		})
	})
}

func TestVerifReadBinary(t *testing.T) {
	alpha := []byte{'a', 'b', '\n'}
	verifStreams(alpha, verifBufMaxLen(), func(s []byte) {
		verifChunkings(s, func(chunks [][]byte) {
			for size := 0; size <= len(s); size++ {
				b := verifNewBuffer(chunks)
				got, err := b.readBinary(size, nil)
				if err != nil || !bytes.Equal(got, s[:size]) {
					t.Fatalf("stream %q chunks %q size %d: got %q err %v", s, chunks, size, got, err)
				}
				got = append([]byte{}, got...)
				// the rest must still be there, in order
				rest := size
				for rest < len(s) {
					got2, err := b.readBinary(1, nil)
					if err != nil || len(got2) != 1 || got2[0] != s[rest] {
						t.Fatalf("stream %q chunks %q size %d: byte %d after block is %q err %v", s, chunks, size, rest, got2, err)
					}
					rest++
				}
			}
		})
	})
}

// reference for junk mode: on LF, if the accumulated line is non-empty and ends in CR, drop the CR and go on
func verifRefJunk(s []byte, p int) (line []byte, next int, interrupted bool, ok bool) {
	var acc []byte
	seg := p
	for q := p; q < len(s); q++ {
		if s[q] == '\n' {
			if bytes.IndexByte(s[seg:q], 3) >= 0 {
				return nil, 0, true, true
			}
			acc = append(acc, s[seg:q]...)
			seg = q + 1
			if len(acc) > 0 && acc[len(acc)-1] == '\r' {
				acc = acc[:len(acc)-1]
				continue
			}
			return acc, q + 1, false, true
		}
	}
	return nil, 0, false, false
}

func TestVerifReadLineJunk(t *testing.T) {
	alpha := []byte{'a', '\n', '\r', 3}
	verifStreams(alpha, verifBufMaxLen(), func(s []byte) {
		// the chunk-level Ctrl-C check looks at a whole chunk prefix, so only compare ETX-free streams exactly
		if bytes.IndexByte(s, 3) >= 0 {
			return
		}
		verifChunkings(s, func(chunks [][]byte) {
			b := verifNewBuffer(chunks)
			p := 0
			for {
				want, next, _, ok := verifRefJunk(s, p)
				if !ok {
					return
				}
				got, err := b.readLine(true, nil)
				if err != nil || !bytes.Equal(got, want) {
					t.Fatalf("stream %q chunks %q at %d: got %q err %v want %q", s, chunks, p, got, err, want)
				}
				p = next
			}
		})
	})
}

func TestVerifPopBuffer(t *testing.T) {
	alpha := []byte{'a', 'b', '\n'}
	verifStreams(alpha, verifBufMaxLen(), func(s []byte) {
		verifChunkings(s, func(chunks [][]byte) {
			b := verifNewBuffer(chunks)
			// consume one strict line if there is one, then everything popped must be the rest in order
			p := 0
			if _, next, intr, ok := verifRefStrict(s, 0); ok && !intr {
				if _, err := b.readLine(false, nil); err != nil {
					t.Fatalf("stream %q chunks %q: %v", s, chunks, err)
				}
				p = next
			}
			var rest []byte
			for {
				c := b.popBuffer()
				if c == nil {
					break
				}
				rest = append(rest, c...)
			}
			if !bytes.Equal(rest, s[p:]) {
				t.Fatalf("stream %q chunks %q: popped %q want %q", s, chunks, rest, s[p:])
			}
		})
	})
}

var _ = fmt.Sprintf
