package trzsz

// Replay / bounded stand-in harness for C16 (injected with `go test -overlay`).
// The composed statement "the payload is recovered exactly" under Windows-console and tmux noise has no
// closed-form contract simpler than the code; it is checked here by enumeration against the REAL readers.
// Bound: payload "#T:" + up to VERIF_BOUND (default 2) letters over {a,8,=}; one or two noise tokens of
// each documented kind inserted at every position; all segmentations when the stream is <= 14 bytes,
// otherwise single-chunk, byte-by-byte and every two-way split.

import (
	"bytes"
	"os"
	"strconv"
	"testing"
)

func verifNoiseBound() int {
	if v, err := strconv.Atoi(os.Getenv("VERIF_BOUND")); err == nil && v > 0 {
		return v
	}
	return 2
}

func verifSegmentations(s []byte, f func(chunks [][]byte)) {
	n := len(s)
	if n == 0 {
		return
	}
	emit := func(cuts []int) {
		var chunks [][]byte
		start := 0
		for _, c := range cuts {
			chunks = append(chunks, append([]byte{}, s[start:c]...))
			start = c
		}
		chunks = append(chunks, append([]byte{}, s[start:]...))
		f(chunks)
	}
	if n <= 14 {
		for mask := 0; mask < 1<<(n-1); mask++ {
			var cuts []int
			for i := 0; i < n-1; i++ {
				if mask&(1<<i) != 0 {
					cuts = append(cuts, i+1)
				}
			}
			emit(cuts)
		}
		return
	}
	emit(nil)
	var all []int
	for i := 1; i < n; i++ {
		all = append(all, i)
		emit([]int{i})
	}
	emit(all)
}

func verifPayloadsNoise(f func(p []byte)) {
	alpha := []byte{'a', '8', '='}
	var rec func(cur []byte)
	rec = func(cur []byte) {
		f(append([]byte("#T:"), cur...))
		if len(cur) == verifNoiseBound() {
			return
		}
		for _, c := range alpha {
			rec(append(append([]byte{}, cur...), c))
		}
	}
	rec(nil)
}

func verifFeed(chunks [][]byte) *trzszBuffer {
	// same structure as newTrzszBuffer() with a smaller queue (allocation cost only)
	b := &trzszBuffer{bufCh: make(chan []byte, 64), stopCh: make(chan bool, 1)}
	for _, c := range chunks {
		if len(c) > 0 {
			b.addBuffer(c)
		}
	}
	return b
}

// Windows framing: the line ends with "!\n"; noise: colour / cursor sequences, padding, CR-LF, and a
// character re-printed after a cursor move ("8\r\n\x1b[25;119H8").
func TestVerifWindowsNoise(t *testing.T) {
	tokens := []string{"\x1b[0m", "\x1b[1;32m", "\x1b[25;1H", " ", "\r\n", "\x1b[K"}
	verifPayloadsNoise(func(p []byte) {
		for pos := 0; pos <= len(p); pos++ {
			for _, tok := range tokens {
				for mult := 1; mult <= 2; mult++ {
					var s []byte
					s = append(s, p[:pos]...)
					for m := 0; m < mult; m++ {
						s = append(s, tok...)
					}
					s = append(s, p[pos:]...)
					s = append(s, '!', '\n')
					verifSegmentations(s, func(chunks [][]byte) {
						got, err := verifFeed(chunks).readLineOnWindows(nil)
						if err != nil || !bytes.Equal(got, p) {
							t.Fatalf("payload %q noise %q x%d at %d chunks %q: got %q err %v", p, tok, mult, pos, chunks, got, err)
						}
					})
				}
			}
		}
		// the re-printed character after a cursor move
		for pos := 1; pos <= len(p); pos++ {
			c := p[pos-1]
			var s []byte
			s = append(s, p[:pos]...)
			s = append(s, "\r\n\x1b[25;119H"...)
			s = append(s, c)
			s = append(s, p[pos:]...)
			s = append(s, '!', '\n')
			verifSegmentations(s, func(chunks [][]byte) {
				got, err := verifFeed(chunks).readLineOnWindows(nil)
				if err != nil || !bytes.Equal(got, p) {
					t.Fatalf("payload %q re-print after %d chunks %q: got %q err %v", p, pos, chunks, got, err)
				}
			})
		}
	})
}

// tmux junk mode: CR-LF wraps at any position and multiplicity are removed by the reader.
func TestVerifTmuxWraps(t *testing.T) {
	verifPayloadsNoise(func(p []byte) {
		for pos := 1; pos <= len(p); pos++ {
			for mult := 1; mult <= 2; mult++ {
				for pos2 := pos; pos2 <= len(p); pos2++ {
					var s []byte
					s = append(s, p[:pos]...)
					for m := 0; m < mult; m++ {
						s = append(s, '\r', '\n')
					}
					s = append(s, p[pos:pos2]...)
					if pos2 > pos {
						s = append(s, '\r', '\n')
					}
					s = append(s, p[pos2:]...)
					s = append(s, '\n')
					verifSegmentations(s, func(chunks [][]byte) {
						got, err := verifFeed(chunks).readLine(true, nil)
						if err != nil || !bytes.Equal(got, p) {
							t.Fatalf("payload %q wraps at %d(x%d),%d chunks %q: got %q err %v", p, pos, mult, pos2, chunks, got, err)
						}
					})
				}
			}
		}
	})
}

// Ctrl-C anywhere in the incoming line interrupts (both readers).
func TestVerifCtrlC(t *testing.T) {
	verifPayloadsNoise(func(p []byte) {
		for pos := 0; pos <= len(p); pos++ {
			var s []byte
			s = append(s, p[:pos]...)
			s = append(s, 3)
			s = append(s, p[pos:]...)
			verifSegmentations(append(append([]byte{}, s...), '\n'), func(chunks [][]byte) {
				if _, err := verifFeed(chunks).readLine(true, nil); err == nil {
					t.Fatalf("junk reader: Ctrl-C at %d of %q chunks %q not reported", pos, p, chunks)
				}
			})
			verifSegmentations(append(append([]byte{}, s...), '!', '\n'), func(chunks [][]byte) {
				if _, err := verifFeed(chunks).readLineOnWindows(nil); err == nil {
					t.Fatalf("windows reader: Ctrl-C at %d of %q chunks %q not reported", pos, p, chunks)
				}
			})
		}
		// ... also when it lands inside a colour / cursor control sequence (Windows reader) or inside a
		// tmux status string (junk reader)
		for _, tok := range []string{"\x1b[25;119H", "\x1b[0m", "\x1bP=1s\x1b\\"} {
			for ipos := 0; ipos <= len(p); ipos++ {
				var withTok []byte
				withTok = append(withTok, p[:ipos]...)
				withTok = append(withTok, tok...)
				withTok = append(withTok, p[ipos:]...)
				for pos := ipos; pos <= ipos+len(tok); pos++ {
					var s []byte
					s = append(s, withTok[:pos]...)
					s = append(s, 3)
					s = append(s, withTok[pos:]...)
					verifSegmentations(append(append([]byte{}, s...), '!', '\n'), func(chunks [][]byte) {
						if _, err := verifFeed(chunks).readLineOnWindows(nil); err == nil {
							t.Fatalf("windows reader: Ctrl-C at %d of %q (inside a control sequence) chunks %q not reported", pos, withTok, chunks)
						}
					})
					verifSegmentations(append(append([]byte{}, s...), '\n'), func(chunks [][]byte) {
						if _, err := verifFeed(chunks).readLine(true, nil); err == nil {
							t.Fatalf("junk reader: Ctrl-C at %d of %q (inside a control sequence) chunks %q not reported", pos, withTok, chunks)
						}
					})
				}
			}
		}
	})
}

// marker cut and status-line removal in recvLine's junk path (strip applied to a cut line)
func TestVerifStripStatusLine(t *testing.T) {
	tr := &trzszTransfer{}
	status := "\x1bP=1s\x1b\\\x1b[?25l\x1bP=2s\x1b\\"
	verifPayloadsNoise(func(p []byte) {
		for pos := 0; pos <= len(p); pos++ {
			s := append(append(append([]byte{}, p[:pos]...), status...), p[pos:]...)
			got := tr.stripTmuxStatusLine(s)
			if bytes.Contains(got, []byte("\x1bP=")) {
				t.Fatalf("payload %q status at %d: still contains a status string: %q", p, pos, got)
			}
		}
	})
}
